// Command instrument rewrites a scratch copy of gofakes3 in place so that it
// runs under the simrt deterministic scheduler:
//
//   - sync.Mutex / RWMutex / WaitGroup / Once  ->  simrt equivalents (by type)
//   - simrt.Yield("<pkg>/<file>:<line>") before every statement
//   - range-over-map loops bracketed by simrt.NoPreempt(+1/-1)
//   - (*bbolt.DB).Update/View/Batch calls wrapped in simrt.BoltTx
//   - go statements -> simrt.Go
//   - channel operations, select, sync.Cond -> refused (exit 2)
//
// usage: instrument <dir-of-module-copy>
package main

import (
	"bytes"
	"fmt"
	"go/ast"
	"go/printer"
	"go/token"
	"go/types"
	"os"
	"path/filepath"
	"sort"
	"strconv"
	"strings"

	"golang.org/x/tools/go/ast/astutil"
	"golang.org/x/tools/go/packages"
)

func die(code int, f string, a ...interface{}) {
	fmt.Fprintf(os.Stderr, "instrument: "+f+"\n", a...)
	os.Exit(code)
}

type stats struct {
	Files, Yields, Mutexes, MapRanges, BoltTx, GoStmts int
}

func main() {
	if len(os.Args) != 2 {
		die(2, "usage: instrument <module dir>")
	}
	dir, err := filepath.Abs(os.Args[1])
	if err != nil {
		die(2, "%v", err)
	}
	cfg := &packages.Config{
		Mode: packages.NeedName | packages.NeedFiles | packages.NeedSyntax | packages.NeedTypes |
			packages.NeedTypesInfo | packages.NeedImports | packages.NeedCompiledGoFiles,
		Dir: dir,
		Env: os.Environ(),
	}
	pkgs, err := packages.Load(cfg, "./...")
	if err != nil {
		die(2, "load: %v", err)
	}
	bad := false
	for _, p := range pkgs {
		for _, e := range p.Errors {
			fmt.Fprintf(os.Stderr, "instrument: %s: %v\n", p.PkgPath, e)
			bad = true
		}
	}
	if bad {
		die(2, "the copy of /repo does not type-check")
	}
	sort.Slice(pkgs, func(i, j int) bool { return pkgs[i].PkgPath < pkgs[j].PkgPath })
	var st stats
	for _, p := range pkgs {
		for i, f := range p.Syntax {
			name := p.CompiledGoFiles[i]
			if !strings.HasPrefix(name, dir) || strings.HasSuffix(name, "_test.go") {
				continue
			}
			rel, _ := filepath.Rel(dir, name)
			in := &inst{pkg: p, file: f, fset: p.Fset, rel: filepath.ToSlash(rel), st: &st}
			in.run()
			f.Comments = nil
			var buf bytes.Buffer
			if err := (&printer.Config{Mode: printer.TabIndent | printer.UseSpaces, Tabwidth: 8}).Fprint(&buf, p.Fset, f); err != nil {
				die(2, "print %s: %v", rel, err)
			}
			if err := os.WriteFile(name, buf.Bytes(), 0644); err != nil {
				die(2, "%v", err)
			}
			st.Files++
		}
	}
	fmt.Printf("instrumented files=%d yields=%d locks=%d mapranges=%d bolttx=%d go=%d\n",
		st.Files, st.Yields, st.Mutexes, st.MapRanges, st.BoltTx, st.GoStmts)
}

type inst struct {
	pkg  *packages.Package
	file *ast.File
	fset *token.FileSet
	rel  string
	st   *stats
	used bool
}

func (in *inst) site(pos token.Pos) string {
	return in.rel + ":" + strconv.Itoa(in.fset.Position(pos).Line)
}

func simCall(fn string, args ...ast.Expr) *ast.CallExpr {
	return &ast.CallExpr{Fun: &ast.SelectorExpr{X: ast.NewIdent("simrt"), Sel: ast.NewIdent(fn)}, Args: args}
}

func strLit(s string) ast.Expr { return &ast.BasicLit{Kind: token.STRING, Value: strconv.Quote(s)} }
func intLit(n int) ast.Expr {
	if n < 0 {
		return &ast.UnaryExpr{Op: token.SUB, X: &ast.BasicLit{Kind: token.INT, Value: strconv.Itoa(-n)}}
	}
	return &ast.BasicLit{Kind: token.INT, Value: strconv.Itoa(n)}
}

func (in *inst) refuse(pos token.Pos, what string) {
	die(2, "cannot simulate: %s at %s (channel operations, select and sync.Cond have no simulator equivalent here)", what, in.site(pos))
}

func (in *inst) run() {
	info := in.pkg.TypesInfo

	// 1. refuse what the runtime cannot own.
	ast.Inspect(in.file, func(n ast.Node) bool {
		switch x := n.(type) {
		case *ast.SelectStmt:
			in.refuse(x.Pos(), "select")
		case *ast.SendStmt:
			in.refuse(x.Pos(), "channel send")
		case *ast.UnaryExpr:
			if x.Op == token.ARROW {
				in.refuse(x.Pos(), "channel receive")
			}
		case *ast.RangeStmt:
			if tv, ok := info.Types[x.X]; ok {
				if _, isChan := tv.Type.Underlying().(*types.Chan); isChan {
					in.refuse(x.Pos(), "range over channel")
				}
			}
		}
		return true
	})

	// 2. sync types -> simrt types, bolt transactions, go statements.
	astutil.Apply(in.file, func(c *astutil.Cursor) bool {
		switch x := c.Node().(type) {
		case *ast.SelectorExpr:
			if obj, ok := info.Uses[x.Sel].(*types.TypeName); ok && obj.Pkg() != nil && obj.Pkg().Path() == "sync" {
				switch obj.Name() {
				case "Mutex", "RWMutex", "WaitGroup", "Once":
					c.Replace(&ast.SelectorExpr{X: ast.NewIdent("simrt"), Sel: ast.NewIdent(obj.Name())})
					in.st.Mutexes++
					in.used = true
					return false
				case "Cond":
					in.refuse(x.Pos(), "sync.Cond")
				}
			}
		}
		return true
	}, func(c *astutil.Cursor) bool {
		switch x := c.Node().(type) {
		case *ast.CallExpr:
			if sel, ok := x.Fun.(*ast.SelectorExpr); ok {
				switch sel.Sel.Name {
				case "Update", "View", "Batch":
					if tv, ok := info.Types[sel.X]; ok && isBoltDB(tv.Type) {
						wrapped := simCall("BoltTx", ast.NewIdent(strconv.FormatBool(sel.Sel.Name != "View")),
							&ast.FuncLit{
								Type: &ast.FuncType{Params: &ast.FieldList{}, Results: &ast.FieldList{List: []*ast.Field{{Type: ast.NewIdent("error")}}}},
								Body: &ast.BlockStmt{List: []ast.Stmt{&ast.ReturnStmt{Results: []ast.Expr{x}}}},
							})
						c.Replace(wrapped)
						in.st.BoltTx++
						in.used = true
					}
				}
			}
		case *ast.GoStmt:
			c.Replace(&ast.ExprStmt{X: simCall("Go", &ast.FuncLit{
				Type: &ast.FuncType{Params: &ast.FieldList{}},
				Body: &ast.BlockStmt{List: []ast.Stmt{&ast.ExprStmt{X: x.Call}}},
			})})
			in.st.GoStmts++
			in.used = true
		}
		return true
	})

	// 3. statement lists: yields and map-range brackets.  The wrapped bolt
	// closures created above are skipped (their single return needs no yield).
	ast.Inspect(in.file, func(n ast.Node) bool {
		switch x := n.(type) {
		case *ast.BlockStmt:
			x.List = in.rewriteList(x.List)
		case *ast.CaseClause:
			x.Body = in.rewriteList(x.Body)
		case *ast.CommClause:
			x.Body = in.rewriteList(x.Body)
		}
		return true
	})

	if in.used {
		astutil.AddImport(in.fset, in.file, "simrt")
	}
	if !astutil.UsesImport(in.file, "sync") {
		astutil.DeleteImport(in.fset, in.file, "sync")
	}
}

func isBoltDB(t types.Type) bool {
	if p, ok := t.(*types.Pointer); ok {
		t = p.Elem()
	}
	n, ok := t.(*types.Named)
	if !ok || n.Obj().Pkg() == nil {
		return false
	}
	return n.Obj().Name() == "DB" && strings.HasSuffix(n.Obj().Pkg().Path(), "bbolt")
}

func (in *inst) isMapRange(s ast.Stmt) (*ast.RangeStmt, bool) {
	for {
		if l, ok := s.(*ast.LabeledStmt); ok {
			s = l.Stmt
			continue
		}
		break
	}
	r, ok := s.(*ast.RangeStmt)
	if !ok {
		return nil, false
	}
	tv, ok := in.pkg.TypesInfo.Types[r.X]
	if !ok || tv.Type == nil {
		return nil, false
	}
	_, isMap := tv.Type.Underlying().(*types.Map)
	return r, isMap
}

func (in *inst) rewriteList(list []ast.Stmt) []ast.Stmt {
	if len(list) == 0 {
		return list
	}
	switch list[0].(type) {
	case *ast.CaseClause, *ast.CommClause:
		return list // body of a switch/select: clauses, not statements
	}
	out := make([]ast.Stmt, 0, 2*len(list)+2)
	for _, s := range list {
		if s.Pos() == token.NoPos {
			// synthesized by us (bolt wrapper body): leave alone
			out = append(out, s)
			continue
		}
		out = append(out, &ast.ExprStmt{X: simCall("Yield", strLit(in.site(s.Pos())))})
		in.st.Yields++
		in.used = true
		if r, ok := in.isMapRange(s); ok {
			in.st.MapRanges++
			in.leaveMapRange(r)
			out = append(out, &ast.ExprStmt{X: simCall("NoPreempt", intLit(1))})
			out = append(out, s)
			out = append(out, &ast.ExprStmt{X: simCall("NoPreempt", intLit(-1))})
			continue
		}
		out = append(out, s)
	}
	return out
}

// leaveMapRange inserts simrt.NoPreempt(-1) before every statement that
// leaves the body of a bracketed map-range loop other than by falling out of
// the loop: return, goto and labelled break/continue to a label that is not
// defined inside the body and is not the loop's own label.
func (in *inst) leaveMapRange(r *ast.RangeStmt) {
	inner := map[string]bool{}
	ast.Inspect(r.Body, func(n ast.Node) bool {
		if l, ok := n.(*ast.LabeledStmt); ok {
			inner[l.Label.Name] = true
		}
		return true
	})
	var fix func(list []ast.Stmt) []ast.Stmt
	leaves := func(s ast.Stmt) bool {
		switch x := s.(type) {
		case *ast.ReturnStmt:
			return true
		case *ast.BranchStmt:
			if x.Tok == token.GOTO {
				return !inner[x.Label.Name]
			}
			if x.Label != nil && !inner[x.Label.Name] {
				// a labelled break/continue that targets this very loop keeps
				// the bracket balanced; anything further out leaves it.
				return !in.ownLabel(r, x.Label.Name)
			}
		}
		return false
	}
	fix = func(list []ast.Stmt) []ast.Stmt {
		out := make([]ast.Stmt, 0, len(list))
		for _, s := range list {
			if leaves(s) {
				out = append(out, &ast.ExprStmt{X: simCall("NoPreempt", intLit(-1))})
			}
			out = append(out, s)
		}
		return out
	}
	var walk func(n ast.Node)
	walk = func(n ast.Node) {
		ast.Inspect(n, func(m ast.Node) bool {
			switch x := m.(type) {
			case *ast.FuncLit:
				return false
			case *ast.BlockStmt:
				x.List = fix(x.List)
			case *ast.CaseClause:
				x.Body = fix(x.Body)
			case *ast.CommClause:
				x.Body = fix(x.Body)
			}
			return true
		})
	}
	walk(r.Body)
}

func (in *inst) ownLabel(r *ast.RangeStmt, name string) bool {
	found := false
	ast.Inspect(in.file, func(n ast.Node) bool {
		if l, ok := n.(*ast.LabeledStmt); ok && l.Label.Name == name {
			s := l.Stmt
			for {
				if ll, ok := s.(*ast.LabeledStmt); ok {
					s = ll.Stmt
					continue
				}
				break
			}
			if s == ast.Stmt(r) {
				found = true
			}
		}
		return !found
	})
	return found
}
