// Command instrument rewrites a scratch copy of gofakes3 in place so that it
// runs under the simrt deterministic scheduler:
//
//   - sync.Mutex / RWMutex / WaitGroup / Once  ->  simrt equivalents (by type)
//   - simrt.Yield("<pkg>/<file>:<line>") before every statement
//   - range-over-map loops bracketed by simrt.NoPreempt(+1/-1)
//   - (*bbolt.DB).Update/View/Batch calls wrapped in simrt.BoltTx
//   - go statements -> simrt.Go
//   - sync.Cond -> simrt.Cond; channel operations and select -> real operations
//     bracketed by simrt.ChanBegin/ChanEnd (simrt's channel fallback)
//
// usage: instrument <dir-of-module-copy>
package main

import (
	"bytes"
	"fmt"
	"go/ast"
	"go/printer"
	"go/token"
	"go/types"
	"os"
	"path/filepath"
	"reflect"
	"sort"
	"strconv"
	"strings"

	"golang.org/x/tools/go/ast/astutil"
	"golang.org/x/tools/go/packages"
)

func die(code int, f string, a ...interface{}) {
	fmt.Fprintf(os.Stderr, "instrument: "+f+"\n", a...)
	os.Exit(code)
}

type stats struct {
	Files, Yields, Mutexes, MapRanges, BoltTx, GoStmts, ChanOps int
}

func main() {
	if len(os.Args) != 2 {
		die(2, "usage: instrument <module dir>")
	}
	dir, err := filepath.Abs(os.Args[1])
	if err != nil {
		die(2, "%v", err)
	}
	cfg := &packages.Config{
		Mode: packages.NeedName | packages.NeedFiles | packages.NeedSyntax | packages.NeedTypes |
			packages.NeedTypesInfo | packages.NeedImports | packages.NeedCompiledGoFiles,
		Dir: dir,
		Env: os.Environ(),
	}
	pkgs, err := packages.Load(cfg, "./...")
	if err != nil {
		die(2, "load: %v", err)
	}
	bad := false
	for _, p := range pkgs {
		for _, e := range p.Errors {
			fmt.Fprintf(os.Stderr, "instrument: %s: %v\n", p.PkgPath, e)
			bad = true
		}
	}
	if bad {
		die(2, "the copy of /repo does not type-check")
	}
	sort.Slice(pkgs, func(i, j int) bool { return pkgs[i].PkgPath < pkgs[j].PkgPath })
	var st stats
	for _, p := range pkgs {
		for i, f := range p.Syntax {
			name := p.CompiledGoFiles[i]
			if !strings.HasPrefix(name, dir) || strings.HasSuffix(name, "_test.go") {
				continue
			}
			rel, _ := filepath.Rel(dir, name)
			in := &inst{pkg: p, file: f, fset: p.Fset, rel: filepath.ToSlash(rel), st: &st}
			in.run()
			f.Comments = nil
			var buf bytes.Buffer
			if err := (&printer.Config{Mode: printer.TabIndent | printer.UseSpaces, Tabwidth: 8}).Fprint(&buf, p.Fset, f); err != nil {
				die(2, "print %s: %v", rel, err)
			}
			if err := os.WriteFile(name, buf.Bytes(), 0644); err != nil {
				die(2, "%v", err)
			}
			st.Files++
		}
	}
	fmt.Printf("instrumented files=%d yields=%d locks=%d mapranges=%d bolttx=%d go=%d chanops=%d\n",
		st.Files, st.Yields, st.Mutexes, st.MapRanges, st.BoltTx, st.GoStmts, st.ChanOps)
}

type inst struct {
	pkg  *packages.Package
	file *ast.File
	fset *token.FileSet
	rel  string
	st   *stats
	used bool

	listed   map[ast.Stmt]bool
	isChan   func(ast.Expr) bool
	commSend map[*ast.SendStmt]bool
	tmp      int
}

func (in *inst) site(pos token.Pos) string {
	return in.rel + ":" + strconv.Itoa(in.fset.Position(pos).Line)
}

func simCall(fn string, args ...ast.Expr) *ast.CallExpr {
	return &ast.CallExpr{Fun: &ast.SelectorExpr{X: ast.NewIdent("simrt"), Sel: ast.NewIdent(fn)}, Args: args}
}

func strLit(s string) ast.Expr { return &ast.BasicLit{Kind: token.STRING, Value: strconv.Quote(s)} }
func intLit(n int) ast.Expr {
	if n < 0 {
		return &ast.UnaryExpr{Op: token.SUB, X: &ast.BasicLit{Kind: token.INT, Value: strconv.Itoa(-n)}}
	}
	return &ast.BasicLit{Kind: token.INT, Value: strconv.Itoa(n)}
}

func (in *inst) refuse(pos token.Pos, what string) {
	die(2, "cannot simulate: %s at %s (channel operations, select and sync.Cond have no simulator equivalent here)", what, in.site(pos))
}

func (in *inst) run() {
	info := in.pkg.TypesInfo

	// 1. channel operations: note which receives and sends are the
	// communication of a select clause (they stay as they are; the select as
	// a whole is bracketed), refuse the few shapes the fallback cannot bracket.
	commRecv := map[*ast.UnaryExpr]bool{}
	commSend := map[*ast.SendStmt]bool{}
	in.listed = map[ast.Stmt]bool{}
	ast.Inspect(in.file, func(n ast.Node) bool {
		switch x := n.(type) {
		case *ast.BlockStmt:
			for _, st := range x.List {
				in.listed[st] = true
			}
		case *ast.CaseClause:
			for _, st := range x.Body {
				in.listed[st] = true
			}
		case *ast.CommClause:
			for _, st := range x.Body {
				in.listed[st] = true
			}
			switch c := x.Comm.(type) {
			case *ast.SendStmt:
				commSend[c] = true
			case *ast.ExprStmt:
				if u, ok := c.X.(*ast.UnaryExpr); ok {
					commRecv[u] = true
				}
			case *ast.AssignStmt:
				if len(c.Rhs) == 1 {
					if u, ok := c.Rhs[0].(*ast.UnaryExpr); ok {
						commRecv[u] = true
					}
				}
			}
		case *ast.LabeledStmt:
			if in.listed[x] {
				in.listed[x.Stmt] = true
			}
		}
		return true
	})
	ast.Inspect(in.file, func(n ast.Node) bool {
		switch x := n.(type) {
		case *ast.SendStmt:
			if !commSend[x] && !in.listed[x] {
				in.refuse(x.Pos(), "channel send outside a statement list")
			}
		case *ast.SelectStmt:
			if !in.listed[x] {
				in.refuse(x.Pos(), "select outside a statement list")
			}
		}
		return true
	})
	isChan := func(e ast.Expr) bool {
		if tv, ok := info.Types[e]; ok && tv.Type != nil {
			_, is := tv.Type.Underlying().(*types.Chan)
			return is
		}
		return false
	}
	in.isChan = isChan
	in.commSend = commSend

	// 2. sync types -> simrt types, bolt transactions, go statements.
	astutil.Apply(in.file, func(c *astutil.Cursor) bool {
		switch x := c.Node().(type) {
		case *ast.SelectorExpr:
			if obj, ok := info.Uses[x.Sel].(*types.TypeName); ok && obj.Pkg() != nil && obj.Pkg().Path() == "sync" {
				switch obj.Name() {
				case "Mutex", "RWMutex", "WaitGroup", "Once", "Cond", "Pool":
					c.Replace(&ast.SelectorExpr{X: ast.NewIdent("simrt"), Sel: ast.NewIdent(obj.Name())})
					in.st.Mutexes++
					in.used = true
					return false
				}
			}
			if obj, ok := info.Uses[x.Sel].(*types.Func); ok && obj.Pkg() != nil && obj.Pkg().Path() == "sync" && obj.Name() == "NewCond" {
				c.Replace(&ast.SelectorExpr{X: ast.NewIdent("simrt"), Sel: ast.NewIdent("NewCond")})
				in.used = true
				return false
			}
		}
		return true
	}, func(c *astutil.Cursor) bool {
		switch x := c.Node().(type) {
		case *ast.UnaryExpr:
			if x.Op == token.ARROW && !commRecv[x] {
				fn := "Recv"
				switch p := c.Parent().(type) {
				case *ast.AssignStmt:
					if len(p.Lhs) == 2 && len(p.Rhs) == 1 {
						fn = "Recv2"
					}
				case *ast.ValueSpec:
					if len(p.Names) == 2 && len(p.Values) == 1 {
						fn = "Recv2"
					}
				}
				c.Replace(simCall(fn, strLit(in.site(x.Pos())), x.X))
				in.st.ChanOps++
				in.used = true
			}
		case *ast.CallExpr:
			if id, ok := x.Fun.(*ast.Ident); ok && id.Name == "close" && len(x.Args) == 1 {
				if _, builtin := info.Uses[id].(*types.Builtin); builtin {
					c.Replace(simCall("Close", strLit(in.site(x.Pos())), x.Args[0]))
					in.st.ChanOps++
					in.used = true
					return true
				}
			}
			if sel, ok := x.Fun.(*ast.SelectorExpr); ok {
				switch sel.Sel.Name {
				case "Update", "View", "Batch":
					if tv, ok := info.Types[sel.X]; ok && isBoltDB(tv.Type) {
						wrapped := simCall("BoltTx", ast.NewIdent(strconv.FormatBool(sel.Sel.Name != "View")),
							&ast.FuncLit{
								Type: &ast.FuncType{Params: &ast.FieldList{}, Results: &ast.FieldList{List: []*ast.Field{{Type: ast.NewIdent("error")}}}},
								Body: &ast.BlockStmt{List: []ast.Stmt{&ast.ReturnStmt{Results: []ast.Expr{x}}}},
							})
						c.Replace(wrapped)
						in.st.BoltTx++
						in.used = true
					}
				}
			}
		case *ast.GoStmt:
			c.Replace(&ast.ExprStmt{X: simCall("Go", &ast.FuncLit{
				Type: &ast.FuncType{Params: &ast.FieldList{}},
				Body: &ast.BlockStmt{List: []ast.Stmt{&ast.ExprStmt{X: x.Call}}},
			})})
			in.st.GoStmts++
			in.used = true
		}
		return true
	})

	// 3. statement lists: yields and map-range brackets.  The wrapped bolt
	// closures created above are skipped (their single return needs no yield).
	ast.Inspect(in.file, func(n ast.Node) bool {
		switch x := n.(type) {
		case *ast.BlockStmt:
			x.List = in.rewriteList(x.List)
		case *ast.CaseClause:
			x.Body = in.rewriteList(x.Body)
		case *ast.CommClause:
			x.Body = in.rewriteList(x.Body)
		}
		return true
	})

	if in.used {
		astutil.AddImport(in.fset, in.file, "simrt")
	}
	if !astutil.UsesImport(in.file, "sync") {
		astutil.DeleteImport(in.fset, in.file, "sync")
	}
}

func isBoltDB(t types.Type) bool {
	if p, ok := t.(*types.Pointer); ok {
		t = p.Elem()
	}
	n, ok := t.(*types.Named)
	if !ok || n.Obj().Pkg() == nil {
		return false
	}
	return n.Obj().Name() == "DB" && strings.HasSuffix(n.Obj().Pkg().Path(), "bbolt")
}

// chanStmt rewrites the statements that operate on channels as statements:
// a send, a select and a range over a channel.  (Receive expressions and
// close calls were replaced by simrt.Recv/Recv2/Close where they stand.)
func (in *inst) chanStmt(s ast.Stmt) ([]ast.Stmt, bool) {
	inner, labels := s, []*ast.LabeledStmt(nil)
	for {
		if l, ok := inner.(*ast.LabeledStmt); ok {
			labels = append(labels, l)
			inner = l.Stmt
			continue
		}
		break
	}
	begin := func(pos token.Pos) ast.Stmt {
		return &ast.ExprStmt{X: simCall("ChanBegin", strLit(in.site(pos)))}
	}
	end := func() ast.Stmt { return &ast.ExprStmt{X: simCall("ChanEnd")} }
	switch x := inner.(type) {
	case *ast.SendStmt:
		if in.commSend[x] {
			return nil, false
		}
		in.st.ChanOps++
		// the operands are evaluated before the operation begins: only the
		// send itself is bracketed (a constant or nil value stays in place,
		// it has no side effect and may need the channel's element type)
		var pre []ast.Stmt
		sendPos := x.Arrow
		in.tmp++
		chName := fmt.Sprintf("simrtCh%d", in.tmp)
		pre = append(pre, &ast.AssignStmt{Lhs: []ast.Expr{ast.NewIdent(chName)}, Tok: token.DEFINE, Rhs: []ast.Expr{x.Chan}})
		x.Chan = ast.NewIdent(chName)
		if tv, ok := in.pkg.TypesInfo.Types[x.Value]; ok && tv.Value == nil && !tv.IsNil() {
			valName := fmt.Sprintf("simrtVal%d", in.tmp)
			pre = append(pre, &ast.AssignStmt{Lhs: []ast.Expr{ast.NewIdent(valName)}, Tok: token.DEFINE, Rhs: []ast.Expr{x.Value}})
			x.Value = ast.NewIdent(valName)
		}
		return append(pre, begin(sendPos), s, end()), true
	case *ast.SelectStmt:
		in.st.ChanOps++
		return in.selectStmt(x, s, begin, end), true
	case *ast.RangeStmt:
		if !in.isChan(x.X) {
			return nil, false
		}
		in.st.ChanOps++
		in.tmp++
		chName, okName := fmt.Sprintf("simrtCh%d", in.tmp), fmt.Sprintf("simrtOK%d", in.tmp)
		hoist := &ast.AssignStmt{Lhs: []ast.Expr{ast.NewIdent(chName)}, Tok: token.DEFINE, Rhs: []ast.Expr{x.X}}
		recv := simCall("Recv2", strLit(in.site(x.Pos())), ast.NewIdent(chName))
		var head []ast.Stmt
		switch {
		case x.Key == nil:
			head = append(head, &ast.AssignStmt{Lhs: []ast.Expr{ast.NewIdent("_"), ast.NewIdent(okName)}, Tok: token.DEFINE, Rhs: []ast.Expr{recv}})
		case x.Tok == token.DEFINE:
			head = append(head, &ast.AssignStmt{Lhs: []ast.Expr{x.Key, ast.NewIdent(okName)}, Tok: token.DEFINE, Rhs: []ast.Expr{recv}})
		default:
			head = append(head,
				&ast.DeclStmt{Decl: &ast.GenDecl{Tok: token.VAR, Specs: []ast.Spec{&ast.ValueSpec{Names: []*ast.Ident{ast.NewIdent(okName)}, Type: ast.NewIdent("bool")}}}},
				&ast.AssignStmt{Lhs: []ast.Expr{x.Key, ast.NewIdent(okName)}, Tok: token.ASSIGN, Rhs: []ast.Expr{recv}})
		}
		head = append(head, &ast.IfStmt{Cond: &ast.UnaryExpr{Op: token.NOT, X: ast.NewIdent(okName)}, Body: &ast.BlockStmt{List: []ast.Stmt{&ast.BranchStmt{Tok: token.BREAK}}}})
		if x.Key != nil && x.Tok == token.DEFINE {
			// the loop variable may be unused in the body
			head = append(head, &ast.AssignStmt{Lhs: []ast.Expr{ast.NewIdent("_")}, Tok: token.ASSIGN, Rhs: []ast.Expr{ast.NewIdent(x.Key.(*ast.Ident).Name)}})
		}
		loop := ast.Stmt(&ast.ForStmt{Body: &ast.BlockStmt{List: append(head, &ast.BlockStmt{List: x.Body.List, Lbrace: x.Body.Lbrace})}})
		for i := len(labels) - 1; i >= 0; i-- {
			labels[i].Stmt = loop
			loop = labels[i]
		}
		return []ast.Stmt{hoist, loop}, true
	}
	return nil, false
}

// selectStmt makes a select deterministic.  Go picks among several ready
// cases at random; the rewrite tries the cases one by one in source order
// with non-blocking selects and only then falls back to the blocking select
// (where exactly one event, caused by another task, ends the wait):
//
//	c1, v1 := <operands, evaluated once, in source order>
//	Begin; select { case C1: End; B1'; default: End
//	  Begin; select { case C2: End; B2'; default: End
//	    Begin; select { case C1: End; B1; case C2: End; B2 } } }
//
// B1', B2' are copies of the bodies.  A select with a default clause needs
// no blocking select and no copies.
func (in *inst) selectStmt(x *ast.SelectStmt, whole ast.Stmt, begin func(token.Pos) ast.Stmt, end func() ast.Stmt) []ast.Stmt {
	info := in.pkg.TypesInfo
	var pre []ast.Stmt
	hoist := func(e ast.Expr, prefix string) ast.Expr {
		if id, ok := e.(*ast.Ident); ok {
			return id
		}
		if tv, ok := info.Types[e]; ok && (tv.Value != nil || tv.IsNil()) {
			return e
		}
		in.tmp++
		name := fmt.Sprintf("%s%d", prefix, in.tmp)
		pre = append(pre, &ast.AssignStmt{Lhs: []ast.Expr{ast.NewIdent(name)}, Tok: token.DEFINE, Rhs: []ast.Expr{e}})
		return ast.NewIdent(name)
	}
	var clauses []*ast.CommClause
	var def *ast.CommClause
	for _, c := range x.Body.List {
		cc := c.(*ast.CommClause)
		if cc.Comm == nil {
			def = cc
			continue
		}
		clauses = append(clauses, cc)
		switch c := cc.Comm.(type) {
		case *ast.SendStmt:
			c.Chan = hoist(c.Chan, "simrtCh")
			c.Value = hoist(c.Value, "simrtVal")
		case *ast.ExprStmt:
			if u, ok := c.X.(*ast.UnaryExpr); ok {
				u.X = hoist(u.X, "simrtCh")
			}
		case *ast.AssignStmt:
			if u, ok := c.Rhs[0].(*ast.UnaryExpr); ok {
				u.X = hoist(u.X, "simrtCh")
			}
		}
	}
	if len(clauses) == 0 || (len(clauses) == 1 && def == nil) {
		// nothing to choose between
		for _, c := range x.Body.List {
			cc := c.(*ast.CommClause)
			cc.Body = append([]ast.Stmt{end()}, cc.Body...)
		}
		return append(pre, begin(x.Pos()), whole)
	}
	// innermost statement: the default body, or the blocking select over all cases
	var inner []ast.Stmt
	if def != nil {
		inner = def.Body
	} else {
		blocking := &ast.SelectStmt{Body: &ast.BlockStmt{}} // no position: later passes leave it alone
		for _, cc := range clauses {
			blocking.Body.List = append(blocking.Body.List, &ast.CommClause{Case: cc.Case, Comm: cc.Comm, Colon: cc.Colon, Body: append([]ast.Stmt{end()}, cc.Body...)})
		}
		inner = []ast.Stmt{begin(x.Pos()), blocking}
	}
	for i := len(clauses) - 1; i >= 0; i-- {
		cc := clauses[i]
		comm, body := cc.Comm, cc.Body
		if def == nil {
			comm = in.clone(cc.Comm).(ast.Stmt)
			body = nil
			for _, st := range cc.Body {
				body = append(body, in.clone(st).(ast.Stmt))
			}
		}
		probe := &ast.SelectStmt{Body: &ast.BlockStmt{List: []ast.Stmt{
			&ast.CommClause{Case: cc.Case, Comm: comm, Colon: cc.Colon, Body: append([]ast.Stmt{end()}, body...)},
			&ast.CommClause{Case: cc.Case, Body: append([]ast.Stmt{end()}, inner...)},
		}}}
		inner = []ast.Stmt{begin(x.Pos()), probe}
	}
	// inner is now [Begin, outermost probe]; a label on the original select moves to it
	outer := inner[1]
	if whole != ast.Stmt(x) {
		l := whole
		for {
			ll := l.(*ast.LabeledStmt)
			if _, ok := ll.Stmt.(*ast.LabeledStmt); ok {
				l = ll.Stmt
				continue
			}
			ll.Stmt = outer
			break
		}
		outer = whole
	}
	return append(pre, inner[0], outer)
}

// clone deep-copies a syntax tree (positions included) and carries the type
// information of expressions and identifiers over to the copy.
func (in *inst) clone(n ast.Node) ast.Node {
	info := in.pkg.TypesInfo
	var cp func(v reflect.Value) reflect.Value
	cp = func(v reflect.Value) reflect.Value {
		switch v.Kind() {
		case reflect.Ptr:
			if v.IsNil() {
				return v
			}
			switch v.Interface().(type) {
			case *ast.Object, *ast.Scope:
				return v
			}
			nv := reflect.New(v.Elem().Type())
			nv.Elem().Set(cp(v.Elem()))
			if oe, ok := v.Interface().(ast.Expr); ok {
				ne := nv.Interface().(ast.Expr)
				if tv, ok := info.Types[oe]; ok {
					info.Types[ne] = tv
				}
				if oid, ok := oe.(*ast.Ident); ok {
					nid := ne.(*ast.Ident)
					if o, ok := info.Uses[oid]; ok {
						info.Uses[nid] = o
					}
					if o, ok := info.Defs[oid]; ok {
						info.Defs[nid] = o
					}
				}
				if osel, ok := oe.(*ast.SelectorExpr); ok {
					if o, ok := info.Selections[osel]; ok {
						info.Selections[ne.(*ast.SelectorExpr)] = o
					}
				}
			}
			return nv
		case reflect.Interface:
			if v.IsNil() {
				return v
			}
			nv := reflect.New(v.Type()).Elem()
			nv.Set(cp(v.Elem()))
			return nv
		case reflect.Slice:
			if v.IsNil() {
				return v
			}
			nv := reflect.MakeSlice(v.Type(), v.Len(), v.Len())
			for i := 0; i < v.Len(); i++ {
				nv.Index(i).Set(cp(v.Index(i)))
			}
			return nv
		case reflect.Struct:
			nv := reflect.New(v.Type()).Elem()
			for i := 0; i < v.NumField(); i++ {
				nv.Field(i).Set(cp(v.Field(i)))
			}
			return nv
		default:
			return v
		}
	}
	return cp(reflect.ValueOf(n)).Interface().(ast.Node)
}

func (in *inst) isMapRange(s ast.Stmt) (*ast.RangeStmt, bool) {
	for {
		if l, ok := s.(*ast.LabeledStmt); ok {
			s = l.Stmt
			continue
		}
		break
	}
	r, ok := s.(*ast.RangeStmt)
	if !ok {
		return nil, false
	}
	tv, ok := in.pkg.TypesInfo.Types[r.X]
	if !ok || tv.Type == nil {
		return nil, false
	}
	_, isMap := tv.Type.Underlying().(*types.Map)
	return r, isMap
}

func (in *inst) rewriteList(list []ast.Stmt) []ast.Stmt {
	if len(list) == 0 {
		return list
	}
	switch list[0].(type) {
	case *ast.CaseClause, *ast.CommClause:
		return list // body of a switch/select: clauses, not statements
	}
	out := make([]ast.Stmt, 0, 2*len(list)+2)
	for _, s := range list {
		if s.Pos() == token.NoPos {
			// synthesized by us (bolt wrapper body): leave alone
			out = append(out, s)
			continue
		}
		out = append(out, &ast.ExprStmt{X: simCall("Yield", strLit(in.site(s.Pos())))})
		in.st.Yields++
		in.used = true
		if more, ok := in.chanStmt(s); ok {
			out = append(out, more...)
			continue
		}
		if r, ok := in.isMapRange(s); ok {
			in.st.MapRanges++
			in.leaveMapRange(r)
			out = append(out, &ast.ExprStmt{X: simCall("NoPreempt", intLit(1))})
			out = append(out, s)
			out = append(out, &ast.ExprStmt{X: simCall("NoPreempt", intLit(-1))})
			continue
		}
		out = append(out, s)
	}
	return out
}

// leaveMapRange inserts simrt.NoPreempt(-1) before every statement that
// leaves the body of a bracketed map-range loop other than by falling out of
// the loop: return, goto and labelled break/continue to a label that is not
// defined inside the body and is not the loop's own label.
func (in *inst) leaveMapRange(r *ast.RangeStmt) {
	inner := map[string]bool{}
	ast.Inspect(r.Body, func(n ast.Node) bool {
		if l, ok := n.(*ast.LabeledStmt); ok {
			inner[l.Label.Name] = true
		}
		return true
	})
	var fix func(list []ast.Stmt) []ast.Stmt
	leaves := func(s ast.Stmt) bool {
		switch x := s.(type) {
		case *ast.ReturnStmt:
			return true
		case *ast.BranchStmt:
			if x.Tok == token.GOTO {
				return !inner[x.Label.Name]
			}
			if x.Label != nil && !inner[x.Label.Name] {
				// a labelled break/continue that targets this very loop keeps
				// the bracket balanced; anything further out leaves it.
				return !in.ownLabel(r, x.Label.Name)
			}
		}
		return false
	}
	fix = func(list []ast.Stmt) []ast.Stmt {
		out := make([]ast.Stmt, 0, len(list))
		for _, s := range list {
			if leaves(s) {
				out = append(out, &ast.ExprStmt{X: simCall("NoPreempt", intLit(-1))})
			}
			out = append(out, s)
		}
		return out
	}
	var walk func(n ast.Node)
	walk = func(n ast.Node) {
		ast.Inspect(n, func(m ast.Node) bool {
			switch x := m.(type) {
			case *ast.FuncLit:
				return false
			case *ast.BlockStmt:
				x.List = fix(x.List)
			case *ast.CaseClause:
				x.Body = fix(x.Body)
			case *ast.CommClause:
				x.Body = fix(x.Body)
			}
			return true
		})
	}
	walk(r.Body)
}

func (in *inst) ownLabel(r *ast.RangeStmt, name string) bool {
	found := false
	ast.Inspect(in.file, func(n ast.Node) bool {
		if l, ok := n.(*ast.LabeledStmt); ok && l.Label.Name == name {
			s := l.Stmt
			for {
				if ll, ok := s.(*ast.LabeledStmt); ok {
					s = ll.Stmt
					continue
				}
				break
			}
			if s == ast.Stmt(r) {
				found = true
			}
		}
		return !found
	})
	return found
}
