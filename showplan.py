#!/usr/bin/env python3
import json,sys
for f in sys.argv[1:]:
    p=json.load(open(f))
    print("===",f)
    print(json.dumps(p['config']))
    for i,c in enumerate(p['clients']):
        for o in c: print('  c%d'%i,json.dumps(o))
    if p.get('schedule'): print('  schedule:',len(p['schedule']),'deviations')
    v=p.get('violation')
    if v:
        print(v['signature']); print(' exp:',v['expected'][:300]); print(' obs:',v['observed'][:500])
