module simrt

go 1.21
