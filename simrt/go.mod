module simrt

go 1.16
