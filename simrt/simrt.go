// Package simrt is the deterministic-simulation runtime that the instrumented
// copy of gofakes3 is linked against.
//
// Exactly one simulated task (a real goroutine) holds the "baton" at any time;
// all others are parked on a private channel.  The baton moves only at
// scheduling points: Yield (inserted before every statement of the code under
// test), Mutex/RWMutex acquisition, simulated I/O (Point), blocking and task
// exit.  Who runs next is decided by the Sim's policy from its own PRNG (search
// mode) or from a recorded list of deviations (replay mode).
//
// When no simulation is active every entry point degrades to the real thing
// (Yield is a no-op, Mutex is a sync.Mutex), so the instrumented copy behaves
// like the shipped code outside the simulator.
package simrt

import (
	"bytes"
	"fmt"
	"hash/fnv"
	"math/rand"
	"runtime"
	"runtime/debug"
	"sort"
	"strconv"
	"strings"
	"sync"
	"sync/atomic"
	"time"
)

// Kind classifies a scheduling point.
type Kind uint8

const (
	KYield Kind = iota // statement boundary in instrumented code
	KLock              // before acquiring a simulated lock
	KIO                // simulated I/O call (transport, disk, bolt tx, op boundary)
	KBlock             // the task cannot continue (lock held by someone else)
	KExit              // the task finished
)

// Deviation is one recorded scheduling decision that differs from the default
// continuation ("keep running; when blocked or finished run the lowest
// runnable task id").  It is keyed by the deciding task, the index of the
// operation that task was executing and the task-local scheduling-point
// counter within that operation.
type Deviation struct {
	Task int `json:"t"`
	Op   int `json:"o"`
	Idx  int `json:"i"`
	To   int `json:"to"`
}

type devKey struct{ t, o, i int }

// Policy selects how search mode makes scheduling decisions.
type Policy struct {
	Kind  string  `json:"kind"`            // seq | random | coarse | pct
	P     float64 `json:"p,omitempty"`     // switch probability at statement yields (random)
	PIO   float64 `json:"pio,omitempty"`   // switch probability at lock / I/O points (random, coarse)
	Depth int     `json:"depth,omitempty"` // number of priority change points (pct)
	Len   int     `json:"len,omitempty"`   // assumed run length in steps (pct)
}

type taskState uint8

const (
	stRunnable taskState = iota
	stBlocked
	stDone
	stExternal // waiting for something outside the system (a peer that stopped sending)
	stChan     // inside a real channel operation (possibly parked in the Go runtime)
)

// Task is one simulated thread of control.
type Task struct {
	ID        int
	Name      string
	wake      chan struct{}
	state     taskState
	op, idx   int
	noPreempt int
	prio      int
	blockedOn string
	holding   map[string]int
	Panic     interface{}
	Stack     string
	gid       int64 // goroutine id, for the channel fallback
	chanEnd   int32 // set (atomically) when the task has left its channel operation
	implicit  bool  // descheduled by the watchdog while parked inside uninstrumented code
	inServer  int32 // > 0 while the task executes the system under test (not harness code)
	simWait   int32 // > 0 while the task waits inside simrt itself (bolt helper goroutine)
	waking    int32 // set by whoever hands this task the baton, cleared by the task once it runs
	parent    *Task // the task that spawned this one with Go (nil for the tasks of the harness)
	sim       *Sim
}

type abortT struct{}

var abortSentinel = &abortT{}

// IsAbort reports whether a recovered panic value is the simulator tearing a
// run down; callers that recover() around code under test must re-panic it.
func IsAbort(r interface{}) bool { return r == interface{}(abortSentinel) }

// HandOff is one baton move kept for the human-readable trace.
type HandOff struct {
	Step     int64
	From, To int
	Kind     Kind
	Site     string
}

// Sim is one simulated execution.
type Sim struct {
	tasks    []*Task
	cur      *Task
	rng      *rand.Rand
	policy   Policy
	replay   map[devKey]int
	isReplay bool
	recorded []Deviation

	steps  int64
	budget int64

	aborted     bool
	AbortReason string // "", "deadlock", "step-budget"
	AbortDetail string

	done chan struct{}

	handoffs    int64
	hash        uint64
	trace       []HandOff
	traceMax    int
	pctChange   []int64
	lockOrder   uint64
	boltMu      Mutex
	finishOnce  sync.Once
	preemptedTx bool  // a bolt transaction body started goroutines and became preemptible
	BlockedRW   int64 // probe: RLock blocked by a pending writer
	BlockedLock int64 // probe: Lock/RLock had to wait
	ChanOps     int64 // probe: real channel operations bracketed by ChanBegin/ChanEnd

	gidMu sync.Mutex
	byGID map[int64]*Task

	implicit       int32 // number of tasks descheduled by the watchdog and not yet back under the baton
	beat           int64 // bumped at every entry into simrt
	inGate         int32 // goroutines currently inside gateSlow (they may wait for impMu)
	impMu          sync.Mutex
	stopDog        chan struct{}
	ImplicitBlocks int64 // probe: the baton holder was found parked inside uninstrumented code
}

// active is the simulation instrumented code talks to.  Only the baton holder
// and (before/after Run) the driver goroutine touch it.
var active *Sim

// Active returns the running simulation or nil.
func Active() *Sim { return active }

// Hooks set by the harness; called from the patched bbolt and from BoltTx.
var (
	// DiskHook is called by the patched bbolt before a page write ("write",
	// with offset and data) and before an fdatasync ("sync").
	DiskHook func(kind string, off int64, data []byte)
	// TxHook is called at bolt transaction boundaries ("begin"/"end").
	TxHook func(write bool, phase string)
)

// NewSim creates a simulation.  seed feeds the schedule PRNG (search mode);
// replay, when non-nil, switches to replay mode and is followed exactly.
func NewSim(seed int64, pol Policy, replay []Deviation, isReplay bool, budget int64) *Sim {
	s := &Sim{
		rng:      rand.New(rand.NewSource(seed)),
		policy:   pol,
		isReplay: isReplay,
		budget:   budget,
		done:     make(chan struct{}),
		traceMax: 4000,
		hash:     14695981039346656037,
	}
	if isReplay {
		s.replay = make(map[devKey]int, len(replay))
		for _, d := range replay {
			s.replay[devKey{d.Task, d.Op, d.Idx}] = d.To
		}
	}
	if pol.Kind == "pct" {
		n := pol.Len
		if n <= 0 {
			n = 4000
		}
		for i := 0; i < pol.Depth; i++ {
			s.pctChange = append(s.pctChange, 1+s.rng.Int63n(int64(n)))
		}
		sort.Slice(s.pctChange, func(i, j int) bool { return s.pctChange[i] < s.pctChange[j] })
	}
	return s
}

// Spawn registers a task.  Tasks start running only inside Run.
func (s *Sim) Spawn(name string, f func()) *Task {
	t := &Task{ID: len(s.tasks), Name: name, wake: make(chan struct{}, 1), holding: map[string]int{}, sim: s}
	if s.cur != nil {
		t.inServer = atomic.LoadInt32(&s.cur.inServer)
		t.parent = s.cur
	}
	if s.policy.Kind == "pct" {
		t.prio = 1000 + s.rng.Intn(1000000)
	}
	s.tasks = append(s.tasks, t)
	go func() {
		t.gid = curGID()
		s.gidMu.Lock()
		if s.byGID == nil {
			s.byGID = map[int64]*Task{}
		}
		s.byGID[t.gid] = t
		s.gidMu.Unlock()
		<-t.wake
		atomic.StoreInt32(&t.waking, 0)
		atomic.StoreInt32(&t.waking, 0)
		if !s.aborted {
			func() {
				defer func() {
					if r := recover(); r != nil && !IsAbort(r) {
						t.Panic = r
						t.Stack = string(debug.Stack())
					}
				}()
				f()
			}()
		}
		gated() // a task released from a block inside uninstrumented code ends here without another scheduling point
		t.noPreempt = 0
		s.exit(t)
	}()
	return t
}

// Run executes all spawned tasks to completion (or abort) and returns.
func (s *Sim) Run() {
	if len(s.tasks) == 0 {
		return
	}
	if active != nil {
		panic("simrt: nested simulation")
	}
	active = s
	first := s.tasks[0]
	if s.policy.Kind == "pct" {
		first = s.pctBest(nil)
	} else if !s.isReplay && s.policy.Kind != "seq" && s.policy.Kind != "" {
		first = s.tasks[s.rng.Intn(len(s.tasks))]
		if first.ID != 0 {
			s.recorded = append(s.recorded, Deviation{Task: -1, Op: 0, Idx: 0, To: first.ID})
		}
	} else if s.isReplay {
		if to, ok := s.replay[devKey{-1, 0, 0}]; ok && to >= 0 && to < len(s.tasks) {
			first = s.tasks[to]
			if to != 0 {
				s.recorded = append(s.recorded, Deviation{Task: -1, Op: 0, Idx: 0, To: to})
			}
		}
	}
	atomic.StoreInt32(&first.waking, 1)
	s.cur = first
	s.stopDog = make(chan struct{})
	go s.watchdog()
	first.wake <- struct{}{}
	<-s.done
	close(s.stopDog)
	active = nil
}

// Steps returns the number of scheduling points executed.
func (s *Sim) Steps() int64 { return s.steps }

// HandOffs returns the number of baton moves.
func (s *Sim) HandOffs() int64 { return s.handoffs }

// Fingerprint is a hash of the sequence of baton moves and lock acquisitions.
func (s *Sim) Fingerprint() uint64 { return s.hash ^ (s.lockOrder * 1099511628211) }

// Recorded returns the deviations taken by this run (search and replay mode).
func (s *Sim) Recorded() []Deviation { return s.recorded }

// Trace returns the retained baton moves.
func (s *Sim) Trace() []HandOff { return s.trace }

// Tasks returns the tasks of the simulation.
func (s *Sim) Tasks() []*Task { return s.tasks }

// Cur returns the id of the task holding the baton (-1 outside a run).
func Cur() int {
	if s := gated(); s != nil && s.cur != nil {
		return s.cur.ID
	}
	return -1
}

// BeginOp tells the scheduler the current task starts its op-th operation;
// the task-local scheduling-point counter restarts from zero.
func BeginOp(op int) {
	if s := gated(); s != nil && s.cur != nil {
		s.cur.op, s.cur.idx = op, 0
	}
}

// StepNow returns the global scheduling-step counter (used to stamp
// invocations and responses in recorded histories).
func StepNow() int64 {
	if s := active; s != nil {
		return s.steps
	}
	return 0
}

// Yield is the statement-boundary scheduling point inserted by the
// instrumenter.
func Yield(site string) {
	s := gated()
	if s == nil {
		return
	}
	s.point(KYield, site)
}

// progress counts events that move a request forward: bytes delivered or
// written by the simulated transport, completed file-system calls, lock
// acquisitions, tasks that finish.  A run that burns wall-clock time while this
// counter stands still is spinning; one that is merely slow keeps it moving.
var progress int64

// Progress records one such event.
func Progress() { atomic.AddInt64(&progress, 1) }

// ProgressCount returns the number of events recorded by this process.
func ProgressCount() int64 { return atomic.LoadInt64(&progress) }

// Point is a scheduling point for simulated I/O and operation boundaries.
func Point(site string) {
	s := gated()
	if s == nil {
		return
	}
	s.point(KIO, site)
}

// NoPreempt raises (+1) or lowers (-1) the calling task's no-preempt depth;
// while it is positive, scheduling points are inert.
func NoPreempt(delta int) {
	s := gated()
	if s == nil || s.cur == nil {
		return
	}
	s.cur.noPreempt += delta
	if s.cur.noPreempt < 0 {
		s.cur.noPreempt = 0
	}
}

func (s *Sim) abortNow(reason, detail string) {
	if !s.aborted {
		s.aborted = true
		s.AbortReason = reason
		s.AbortDetail = detail
	}
	panic(abortSentinel)
}

func (s *Sim) point(kind Kind, site string) {
	t := s.cur
	if t == nil || s.aborted || t.noPreempt > 0 {
		return
	}
	s.steps++
	if s.steps > s.budget {
		s.abortNow("step-budget", fmt.Sprintf("task %d at %s after %d steps", t.ID, site, s.steps))
	}
	t.idx++
	next := s.decide(t, kind)
	if next != nil && next != t {
		s.switchTo(t, next, kind, site)
	}
}

func (s *Sim) runnable(except *Task) []*Task {
	s.promoteChan()
	var out []*Task
	for _, x := range s.tasks {
		if x != except && x.state == stRunnable {
			out = append(out, x)
		}
	}
	return out
}

func (s *Sim) pctBest(except *Task) *Task {
	s.promoteChan()
	var best *Task
	for _, x := range s.tasks {
		if x != except && x.state == stRunnable && (best == nil || x.prio > best.prio) {
			best = x
		}
	}
	return best
}

// decide picks the task to run after a voluntary scheduling point of t
// (t stays runnable).  nil or t means "keep running".
func (s *Sim) decide(t *Task, kind Kind) *Task {
	if len(s.tasks) == 1 {
		return t
	}
	if s.isReplay {
		if to, ok := s.replay[devKey{t.ID, t.op, t.idx}]; ok && to >= 0 && to < len(s.tasks) {
			x := s.tasks[to]
			if x.state == stRunnable && x != t {
				s.recorded = append(s.recorded, Deviation{t.ID, t.op, t.idx, to})
				return x
			}
		}
		return t
	}
	var next *Task
	switch s.policy.Kind {
	case "random", "coarse":
		p := s.policy.P
		if kind != KYield {
			p = s.policy.PIO
		} else if s.policy.Kind == "coarse" {
			return t
		}
		if p <= 0 || s.rng.Float64() >= p {
			return t
		}
		c := s.runnable(t)
		if len(c) == 0 {
			return t
		}
		next = c[s.rng.Intn(len(c))]
	case "pct":
		for len(s.pctChange) > 0 && s.steps >= s.pctChange[0] {
			t.prio = len(s.pctChange) // drops below every initial priority
			s.pctChange = s.pctChange[1:]
		}
		next = s.pctBest(nil)
	default:
		return t
	}
	if next != nil && next != t {
		s.recorded = append(s.recorded, Deviation{t.ID, t.op, t.idx, next.ID})
	}
	return next
}

// pick chooses who runs when t cannot continue (blocked or done).
func (s *Sim) pick(t *Task) *Task {
	c := s.runnable(t)
	if len(c) == 0 {
		return nil
	}
	def := c[0]
	if s.isReplay {
		if to, ok := s.replay[devKey{t.ID, t.op, t.idx}]; ok && to >= 0 && to < len(s.tasks) {
			x := s.tasks[to]
			if x.state == stRunnable && x != t {
				if x != def {
					s.recorded = append(s.recorded, Deviation{t.ID, t.op, t.idx, to})
				}
				return x
			}
		}
		return def
	}
	next := def
	switch s.policy.Kind {
	case "random", "coarse":
		next = c[s.rng.Intn(len(c))]
	case "pct":
		next = s.pctBest(t)
	}
	if next != def {
		s.recorded = append(s.recorded, Deviation{t.ID, t.op, t.idx, next.ID})
	}
	return next
}

func (s *Sim) note(from, to *Task, kind Kind, site string) {
	s.handoffs++
	h := s.hash
	for _, v := range [...]uint64{uint64(from.ID + 1), uint64(to.ID + 1), uint64(from.op + 1), uint64(from.idx), uint64(kind)} {
		h ^= v
		h *= 1099511628211
	}
	s.hash = h
	if len(s.trace) < s.traceMax {
		s.trace = append(s.trace, HandOff{s.steps, from.ID, to.ID, kind, site})
	}
}

func (s *Sim) switchTo(t, next *Task, kind Kind, site string) {
	s.note(t, next, kind, site)
	atomic.StoreInt32(&next.waking, 1)
	s.cur = next
	next.wake <- struct{}{}
	<-t.wake
	atomic.StoreInt32(&t.waking, 0)
	if s.aborted {
		panic(abortSentinel)
	}
}

// block parks t until someone makes it runnable again.
func (s *Sim) block(t *Task, on string) {
	t.state = stBlocked
	t.blockedOn = on
	t.idx++
	s.steps++
	next := s.pick(t)
	if next == nil {
		next = s.noRunnable()
	}
	s.switchTo(t, next, KBlock, on)
	t.blockedOn = ""
}

// behindStalledPeer: t is a goroutine of a request whose client stopped
// sending (it waits for data that request will never get): it is part of the
// stalled request, not a request wedged behind it.
func behindStalledPeer(t *Task) bool {
	for p := t.parent; p != nil; p = p.parent {
		if p.state == stExternal {
			return true
		}
	}
	// ... or the other way round: the request's own goroutine waits on a
	// channel for a helper goroutine it started, and it is the helper that
	// reads from the client that stopped sending
	if t.state == stChan && t.sim != nil {
		for _, x := range t.sim.tasks {
			if x.state != stExternal {
				continue
			}
			for p := x.parent; p != nil; p = p.parent {
				if p == t {
					return true
				}
			}
		}
	}
	return false
}

// noRunnable decides what happens when no task can run.  Tasks waiting for
// an external event (a client that stopped sending) are released only when
// everything else has finished; if instead other tasks are blocked on locks,
// the system is wedged behind the stalled peer; with no external waiter at
// all it is a deadlock.  It returns the task to run next or aborts the run.
func (s *Sim) noRunnable() *Task {
	if x := s.waitChan(); x != nil {
		return x
	}
	var ext *Task
	blocked := false
	for _, x := range s.tasks {
		switch x.state {
		case stExternal:
			if ext == nil {
				ext = x
			}
		case stBlocked, stChan:
			if !behindStalledPeer(x) {
				blocked = true
			}
		}
	}
	if ext == nil {
		s.abortNow("deadlock", s.waitGraph())
	}
	if blocked {
		s.abortNow("wedged", s.waitGraph())
	}
	ext.state = stRunnable
	return ext
}

// WaitExternal parks the calling task until nothing else in the system can
// run: the peer it is waiting for never acts again during the run.  It
// returns when the simulator gives up on the peer (the connection is then
// reported as reset by the caller).
func WaitExternal(reason string) {
	s := gated()
	if s == nil || s.cur == nil || s.aborted {
		return
	}
	t := s.cur
	t.state = stExternal
	t.blockedOn = reason
	t.idx++
	s.steps++
	next := s.pick(t)
	if next == nil {
		next = s.noRunnable()
	}
	if next != t {
		s.switchTo(t, next, KBlock, reason)
	}
	t.state = stRunnable
	t.blockedOn = ""
}

func (s *Sim) waitGraph() string {
	var b strings.Builder
	for _, x := range s.tasks {
		switch x.state {
		case stBlocked:
			var held []string
			for k, n := range x.holding {
				if n > 0 {
					held = append(held, k)
				}
			}
			sort.Strings(held)
			fmt.Fprintf(&b, "task %d (%s) waits for %s holding %v; ", x.ID, x.Name, x.blockedOn, held)
		case stExternal:
			var held []string
			for k, n := range x.holding {
				if n > 0 {
					held = append(held, k)
				}
			}
			sort.Strings(held)
			fmt.Fprintf(&b, "task %d (%s) waits for %s holding %v; ", x.ID, x.Name, x.blockedOn, held)
		case stChan:
			fmt.Fprintf(&b, "task %d (%s) waits in a channel operation at %s; ", x.ID, x.Name, x.blockedOn)
		case stDone:
			fmt.Fprintf(&b, "task %d done; ", x.ID)
		default:
			fmt.Fprintf(&b, "task %d runnable; ", x.ID)
		}
	}
	return b.String()
}

// finish ends Run.  It may be reached twice when part of a run executes on a
// goroutine the scheduler does not own (a bolt transaction body that runs
// goroutines of its own).
func (s *Sim) finish() {
	s.finishOnce.Do(func() { close(s.done) })
}

func (s *Sim) exit(t *Task) {
	t.state = stDone
	if s.aborted {
		// tear-down chain: release the parked tasks one at a time so that
		// harness code never runs concurrently.
		for _, x := range s.tasks {
			if x.state == stChan && atomic.LoadInt32(&x.chanEnd) == 0 {
				// parked inside the Go runtime on a channel nobody will serve:
				// it cannot be unwound; the goroutine is abandoned
				x.state = stDone
			}
			if x.state != stDone {
				atomic.StoreInt32(&x.waking, 1)
				s.cur = x
				x.state = stRunnable
				x.wake <- struct{}{}
				return
			}
		}
		s.finish()
		return
	}
	t.idx++
	next := s.pick(t)
	if next == nil {
		next = s.waitChan()
	}
	if next == nil {
		alldone, ext, blocked := true, (*Task)(nil), false
		for _, x := range s.tasks {
			if x.state != stDone {
				alldone = false
			}
			if x.state == stExternal && ext == nil {
				ext = x
			}
			if (x.state == stBlocked || x.state == stChan) && !behindStalledPeer(x) {
				blocked = true
			}
		}
		switch {
		case alldone:
			s.finish()
			return
		case ext != nil && !blocked:
			ext.state = stRunnable
			next = ext
		default:
			s.aborted = true
			s.AbortReason = "deadlock"
			if ext != nil {
				s.AbortReason = "wedged"
			}
			s.AbortDetail = s.waitGraph()
			s.exit(t)
			return
		}
	}
	s.note(t, next, KExit, "exit")
	atomic.StoreInt32(&next.waking, 1)
	s.cur = next
	next.wake <- struct{}{}
}

func (s *Sim) lockNote(name string, t *Task) {
	h := fnv.New64a()
	h.Write([]byte(name))
	s.lockOrder = (s.lockOrder*31 + h.Sum64()) ^ uint64(t.ID+1)
}

// ---------------------------------------------------------------- Mutex

// Mutex replaces sync.Mutex in the instrumented copy.
type Mutex struct {
	real    sync.Mutex
	held    bool
	owner   *Task
	waiters []*Task
}

func lockName(p interface{}) string { return fmt.Sprintf("%T@%p", p, p) }

func (m *Mutex) Lock() {
	Progress()
	s := gated()
	if s == nil || s.cur == nil {
		m.real.Lock()
		return
	}
	if s.aborted {
		return
	}
	t := s.cur
	s.point(KLock, "Mutex.Lock")
	for m.held {
		s.BlockedLock++
		m.waiters = append(m.waiters, t)
		s.block(t, lockName(m))
	}
	m.held, m.owner = true, t
	t.holding[lockName(m)]++
	s.lockNote("M", t)
}

func (m *Mutex) Unlock() {
	s := gated()
	if s == nil || s.cur == nil {
		m.real.Unlock()
		return
	}
	if s.aborted {
		return
	}
	if !m.held {
		panic("sync: unlock of unlocked mutex")
	}
	if m.owner != nil {
		m.owner.holding[lockName(m)]--
	}
	m.held, m.owner = false, nil
	for _, w := range m.waiters {
		if w.state == stBlocked {
			w.state = stRunnable
		}
	}
	m.waiters = m.waiters[:0]
}

// TryLock mirrors sync.Mutex.TryLock.
func (m *Mutex) TryLock() bool {
	s := gated()
	if s == nil || s.cur == nil {
		return m.real.TryLock()
	}
	if s.aborted {
		return true
	}
	s.point(KLock, "Mutex.TryLock")
	if m.held {
		return false
	}
	m.held, m.owner = true, s.cur
	s.cur.holding[lockName(m)]++
	return true
}

// ---------------------------------------------------------------- RWMutex

// RWMutex replaces sync.RWMutex; like Go's it prefers writers: a pending
// Lock blocks new RLocks, so recursive read locking can deadlock here exactly
// when it can in production.
type RWMutex struct {
	real     sync.RWMutex
	writer   *Task
	readers  int
	pendingW int
	waiters  []*Task
}

func (m *RWMutex) wakeAll() {
	for _, w := range m.waiters {
		if w.state == stBlocked {
			w.state = stRunnable
		}
	}
	m.waiters = m.waiters[:0]
}

func (m *RWMutex) Lock() {
	Progress()
	s := gated()
	if s == nil || s.cur == nil {
		m.real.Lock()
		return
	}
	if s.aborted {
		return
	}
	t := s.cur
	s.point(KLock, "RWMutex.Lock")
	m.pendingW++
	for m.writer != nil || m.readers > 0 {
		s.BlockedLock++
		m.waiters = append(m.waiters, t)
		s.block(t, lockName(m)+"(W)")
	}
	m.pendingW--
	m.writer = t
	t.holding[lockName(m)+"(W)"]++
	s.lockNote("W", t)
}

func (m *RWMutex) Unlock() {
	s := gated()
	if s == nil || s.cur == nil {
		m.real.Unlock()
		return
	}
	if s.aborted {
		return
	}
	if m.writer == nil {
		panic("sync: Unlock of unlocked RWMutex")
	}
	m.writer.holding[lockName(m)+"(W)"]--
	m.writer = nil
	m.wakeAll()
}

func (m *RWMutex) RLock() {
	Progress()
	s := gated()
	if s == nil || s.cur == nil {
		m.real.RLock()
		return
	}
	if s.aborted {
		return
	}
	t := s.cur
	s.point(KLock, "RWMutex.RLock")
	for m.writer != nil || m.pendingW > 0 {
		s.BlockedLock++
		if m.writer == nil {
			s.BlockedRW++
		}
		m.waiters = append(m.waiters, t)
		s.block(t, lockName(m)+"(R)")
	}
	m.readers++
	t.holding[lockName(m)+"(R)"]++
	s.lockNote("R", t)
}

func (m *RWMutex) RUnlock() {
	s := gated()
	if s == nil || s.cur == nil {
		m.real.RUnlock()
		return
	}
	if s.aborted {
		return
	}
	if m.readers <= 0 {
		panic("sync: RUnlock of unlocked RWMutex")
	}
	m.readers--
	s.cur.holding[lockName(m)+"(R)"]--
	if m.readers == 0 {
		m.wakeAll()
	}
}

// RLocker mirrors sync.RWMutex.RLocker.
func (m *RWMutex) RLocker() sync.Locker { return (*rlocker)(m) }

type rlocker RWMutex

func (r *rlocker) Lock()   { (*RWMutex)(r).RLock() }
func (r *rlocker) Unlock() { (*RWMutex)(r).RUnlock() }

// ---------------------------------------------------------------- WaitGroup, Once, Go

// WaitGroup replaces sync.WaitGroup.
type WaitGroup struct {
	real    sync.WaitGroup
	n       int
	waiters []*Task
}

func (w *WaitGroup) Add(d int) {
	s := gated()
	if s == nil || s.cur == nil {
		w.real.Add(d)
		return
	}
	w.n += d
	if w.n < 0 {
		panic("sync: negative WaitGroup counter")
	}
	if w.n == 0 {
		for _, x := range w.waiters {
			if x.state == stBlocked {
				x.state = stRunnable
			}
		}
		w.waiters = nil
	}
}

func (w *WaitGroup) Done() { w.Add(-1) }

// Go mirrors sync.WaitGroup.Go (Go 1.25).
func (w *WaitGroup) Go(f func()) {
	w.Add(1)
	Go(func() {
		defer w.Done()
		f()
	})
}

func (w *WaitGroup) Wait() {
	s := gated()
	if s == nil || s.cur == nil {
		w.real.Wait()
		return
	}
	if s.aborted {
		return
	}
	s.point(KLock, "WaitGroup.Wait")
	for w.n > 0 {
		w.waiters = append(w.waiters, s.cur)
		s.block(s.cur, lockName(w))
	}
}

// Once replaces sync.Once.
type Once struct {
	m    Mutex
	done bool
}

func (o *Once) Do(f func()) {
	if o.done {
		return
	}
	o.m.Lock()
	defer o.m.Unlock()
	if !o.done {
		defer func() { o.done = true }()
		f()
	}
}

// PreemptedTx reports whether a bolt transaction body of this run started
// goroutines of its own (and so ran partly on a helper goroutine the scheduler
// does not own: such runs do not re-execute identically).
func (s *Sim) PreemptedTx() bool { return s.preemptedTx }

// Go replaces the go statement: inside a simulation the function becomes a
// new task; outside it is a plain goroutine.
func Go(f func()) {
	s := gated()
	if s == nil || s.cur == nil {
		// outside a simulation (the harness's set-up requests): a plain
		// goroutine, which WaitStrays lets finish before the simulation
		// starts - one that took a real lock before and releases a simulated
		// one after would find it unlocked
		strays.Add(1)
		go func() {
			defer strays.Done()
			f()
		}()
		return
	}
	// A bolt transaction body is one scheduling step - until it starts
	// goroutines of its own and waits for them: from then on it is preemptible
	// like any other code (bbolt's own versioning keeps its view consistent).
	if s.cur.noPreempt > 0 {
		s.cur.noPreempt = 0
		s.preemptedTx = true
	}
	t := s.Spawn("go", f)
	_ = t
	s.point(KIO, "go")
}

var strays sync.WaitGroup

// WaitStrays waits (up to d) for the goroutines the code under test started
// outside a simulation.
func WaitStrays(d time.Duration) bool {
	done := make(chan struct{})
	go func() { strays.Wait(); close(done) }()
	select {
	case <-done:
		return true
	case <-time.After(d):
		return false
	}
}

// ---------------------------------------------------------------- bolt

// BoltTx wraps a bbolt Update/View call of the instrumented copy.  It takes a
// simulator-level writer lock (mirroring bbolt's own), makes the transaction
// body non-preemptible and reports the boundaries to TxHook.
func BoltTx(write bool, f func() error) error {
	s := gated()
	if s == nil || s.cur == nil {
		return f()
	}
	t := s.cur
	if write {
		s.boltMu.Lock()
		defer s.boltMu.Unlock()
	} else {
		s.point(KIO, "bolt.View")
	}
	if TxHook != nil {
		TxHook(write, "begin")
	}
	t.noPreempt++
	defer func() {
		if t.noPreempt > 0 {
			t.noPreempt--
		}
		if TxHook != nil {
			TxHook(write, "end")
		}
	}()
	// bbolt's own locks are real: a transaction that waits for one that is
	// never released (a read transaction that was never closed blocks the
	// remap a growing write needs) would park the baton holder for good.  The
	// call therefore runs on a helper goroutine and is given a generous
	// wall-clock limit; exceeding it is reported as a wedged server.
	type result struct {
		err error
		pan interface{}
	}
	done := make(chan result, 1)
	go func() {
		var r result
		defer func() {
			if p := recover(); p != nil {
				r.pan = p
			}
			done <- r
		}()
		r.err = f()
	}()
	atomic.AddInt32(&t.simWait, 1)
	defer atomic.AddInt32(&t.simWait, -1)
	select {
	case r := <-done:
		if r.pan != nil {
			panic(r.pan)
		}
		return r.err
	case <-time.After(BoltTxLimit):
		if s.preemptedTx {
			// A transaction of this run started goroutines of its own and was
			// descheduled while it was open; bbolt's locks are real, so another
			// transaction may be waiting for one that the scheduler has parked.
			// That wait is the simulator's doing: no verdict.
			s.abortNow("artifact", "a bolt transaction waits inside bbolt while another transaction, whose body runs goroutines of its own, is descheduled: the simulator cannot interleave inside bbolt")
			return nil
		}
		s.abortNow("wedged", "a bolt transaction did not finish: it waits for a lock inside bbolt that is never released (a transaction left open?)")
		return nil
	}
}

// BoltTxLimit is the wall-clock time a single bbolt transaction may take
// before the run is declared wedged.
var BoltTxLimit = 8 * time.Second

// ---------------------------------------------------------------- Cond

// Cond replaces sync.Cond.  Wait releases L, parks the task until Signal or
// Broadcast, and re-acquires L, all at scheduling points the simulator owns.
type Cond struct {
	L       sync.Locker
	real    *sync.Cond
	waiters []*Task
}

// NewCond replaces sync.NewCond.
func NewCond(l sync.Locker) *Cond { return &Cond{L: l, real: sync.NewCond(l)} }

func (c *Cond) Wait() {
	s := gated()
	if s == nil || s.cur == nil {
		c.real.Wait()
		return
	}
	if s.aborted {
		return
	}
	t := s.cur
	c.waiters = append(c.waiters, t)
	c.L.Unlock()
	s.block(t, lockName(c))
	c.L.Lock()
}

func (c *Cond) Signal() {
	s := gated()
	if s == nil || s.cur == nil {
		c.real.Signal()
		return
	}
	for len(c.waiters) > 0 {
		w := c.waiters[0]
		c.waiters = c.waiters[1:]
		if w.state == stBlocked {
			w.state = stRunnable
			break
		}
	}
	s.point(KLock, "Cond.Signal")
}

func (c *Cond) Broadcast() {
	s := gated()
	if s == nil || s.cur == nil {
		c.real.Broadcast()
		return
	}
	for _, w := range c.waiters {
		if w.state == stBlocked {
			w.state = stRunnable
		}
	}
	c.waiters = nil
	s.point(KLock, "Cond.Broadcast")
}

// ---------------------------------------------------------------- channels (fallback)
//
// The code under test uses no channels today.  Should a change introduce
// them, the instrumenter brackets every channel operation with ChanBegin and
// ChanEnd instead of refusing the tree.  The operation itself stays a real Go
// channel operation.  A watcher goroutine holds the baton meanwhile: it waits
// until the task has either left the operation (ChanEnd) or is parked inside
// the Go runtime ("chan receive", "chan send", "select" in the goroutine
// dump), lets every task the operation released run up to its own ChanEnd,
// and only then makes the next scheduling decision.  All tasks other than the
// one operating are parked, so the outcome is as repeatable as the rest of a
// run; only channels fed from outside the task set (timers, library
// goroutines) complete at wall-clock instants.

// ChanIdleLimit is how long the scheduler waits (wall clock) for a task
// parked in a channel operation to be released from outside the task set
// before the run is declared deadlocked.
var ChanIdleLimit = 2 * time.Second

// chanSettleLimit bounds the wait for one goroutine to finish or park.
var chanSettleLimit = 8 * time.Second

func curGID() int64 {
	var buf [64]byte
	n := runtime.Stack(buf[:], false)
	// "goroutine 123 [running]:"
	f := bytes.Fields(buf[:n])
	if len(f) < 2 {
		return -1
	}
	id, _ := strconv.ParseInt(string(f[1]), 10, 64)
	return id
}

// gstatus returns the wait reason of a goroutine as printed by the runtime
// ("running", "runnable", "chan receive", "select", ...).
func gstatus(gid int64) string {
	buf := make([]byte, 1<<16)
	for {
		n := runtime.Stack(buf, true)
		if n < len(buf) {
			buf = buf[:n]
			break
		}
		buf = make([]byte, 2*len(buf))
	}
	needle := []byte("goroutine " + strconv.FormatInt(gid, 10) + " [")
	for off := 0; off < len(buf); {
		i := bytes.Index(buf[off:], needle)
		if i < 0 {
			return ""
		}
		i += off
		if i == 0 || buf[i-1] == '\n' {
			rest := buf[i+len(needle):]
			if j := bytes.IndexByte(rest, ']'); j >= 0 {
				return string(rest[:j])
			}
			return ""
		}
		off = i + 1
	}
	return ""
}

// gwhere names the innermost frames of a goroutine (for reports).
func gwhere(gid int64) string {
	buf := make([]byte, 1<<18)
	n := runtime.Stack(buf, true)
	buf = buf[:n]
	needle := []byte("goroutine " + strconv.FormatInt(gid, 10) + " [")
	i := bytes.Index(buf, needle)
	if i < 0 {
		return "?"
	}
	lines := strings.Split(string(buf[i:]), "\n")
	var fns []string
	for j := 1; j < len(lines) && len(fns) < 4; j += 2 {
		if lines[j] == "" {
			break
		}
		f := lines[j]
		if k := strings.LastIndex(f, "("); k > 0 {
			f = f[:k]
		}
		fns = append(fns, f)
	}
	return strings.Join(fns, " < ")
}

func parkedInChan(st string) bool {
	return strings.HasPrefix(st, "chan receive") || strings.HasPrefix(st, "chan send") || strings.HasPrefix(st, "select")
}

// promoteChan makes tasks that have left their channel operation runnable.
func (s *Sim) promoteChan() {
	s.settleImplicit()
	for _, x := range s.tasks {
		if x.state == stChan && atomic.LoadInt32(&x.chanEnd) == 1 {
			x.state = stRunnable
			x.blockedOn = ""
		}
	}
}

// settle waits until x has left its channel operation or is parked in it.
// It reports false when neither happens within chanSettleLimit.
func (s *Sim) settle(x *Task) bool {
	deadline := time.Now().Add(chanSettleLimit)
	for spins := 0; ; spins++ {
		if atomic.LoadInt32(&x.chanEnd) == 1 {
			x.state = stRunnable
			x.blockedOn = ""
			return true
		}
		if parkedInChan(gstatus(x.gid)) {
			if atomic.LoadInt32(&x.chanEnd) == 1 { // parked on its baton channel, not in the operation
				continue
			}
			return true
		}
		if time.Now().After(deadline) {
			return false
		}
		if spins < 50 {
			runtime.Gosched()
		} else {
			time.Sleep(50 * time.Microsecond)
		}
	}
}

// waitChan is called when no task is runnable: tasks parked in channel
// operations may still be released from outside the task set (a timer).  It
// returns such a task once it has left its operation, or nil.
func (s *Sim) waitChan() *Task {
	any := false
	for _, x := range s.tasks {
		if x.state == stChan && (atomic.LoadInt32(&x.chanEnd) == 1 || !behindStalledPeer(x)) {
			any = true
		}
	}
	if !any {
		return nil
	}
	deadline := time.Now().Add(ChanIdleLimit)
	for {
		for _, x := range s.tasks {
			if x.state == stChan && atomic.LoadInt32(&x.chanEnd) == 1 {
				x.state = stRunnable
				x.blockedOn = ""
				return x
			}
		}
		if time.Now().After(deadline) {
			return nil
		}
		time.Sleep(100 * time.Microsecond)
	}
}

// ChanBegin is inserted before a channel operation of the code under test.
func ChanBegin(site string) {
	s := gated()
	if s == nil || s.cur == nil || s.aborted {
		return
	}
	t := s.cur
	if t.gid != curGID() {
		return // on a helper goroutine (inside a bolt transaction): not a scheduling matter
	}
	s.ChanOps++
	s.steps++
	t.idx++
	atomic.StoreInt32(&t.chanEnd, 0)
	t.state = stChan
	t.blockedOn = site
	go s.watch(t, site)
}

// ChanEnd is inserted after the operation (and at the head of every select clause).
func ChanEnd() {
	s := active
	if s == nil {
		return
	}
	s.gidMu.Lock()
	t := s.byGID[curGID()]
	s.gidMu.Unlock()
	if t == nil || t.state == stDone || atomic.LoadInt32(&t.chanEnd) == 1 {
		return
	}
	if t.state != stChan {
		return
	}
	atomic.AddInt32(&t.simWait, 1) // waiting for the baton inside simrt: not the watchdog's business
	atomic.StoreInt32(&t.chanEnd, 1)
	<-t.wake
	atomic.StoreInt32(&t.waking, 0)
	atomic.AddInt32(&t.simWait, -1)
	if s.aborted {
		panic(abortSentinel)
	}
}

// watch holds the baton while t is inside a channel operation.
func (s *Sim) watch(t *Task, site string) {
	ok := s.settle(t)
	if ok {
		for _, x := range s.tasks {
			if x != t && x.state == stChan {
				if !s.settle(x) {
					ok = false
				}
			}
		}
	}
	s.handOverFromOutside(t, site, ok)
}

// handOverFromOutside makes the scheduling decision that follows t's channel
// operation (or its descheduling by the watchdog) on a goroutine that is not
// a task, and wakes the task chosen.
func (s *Sim) handOverFromOutside(t *Task, site string, ok bool) {
	var next *Task
	func() {
		defer func() {
			if r := recover(); r != nil && !IsAbort(r) {
				panic(r)
			}
		}()
		if !ok {
			s.abortNow("wedged", "a goroutine neither finished nor parked in its channel operation at "+site)
		}
		if s.steps > s.budget {
			s.abortNow("step-budget", fmt.Sprintf("task %d at %s after %d steps", t.ID, site, s.steps))
		}
		if t.state == stRunnable {
			next = s.decide(t, KIO)
			if next == nil {
				next = t
			}
		} else {
			next = s.pick(t)
			if next == nil {
				next = s.noRunnable()
			}
		}
	}()
	if s.aborted {
		// tear down from here: the chain in exit() releases the parked tasks one by one
		for _, x := range s.tasks {
			if x.state == stChan && atomic.LoadInt32(&x.chanEnd) == 0 {
				x.state = stDone
			}
		}
		for _, x := range s.tasks {
			if x.state != stDone {
				atomic.StoreInt32(&x.waking, 1)
				s.cur = x
				x.state = stRunnable
				x.wake <- struct{}{}
				return
			}
		}
		s.finish()
		return
	}
	if next != t {
		s.note(t, next, KBlock, site)
	}
	atomic.StoreInt32(&next.waking, 1)
	s.cur = next
	next.wake <- struct{}{}
}

// Recv replaces a receive expression.
func Recv[T any](site string, ch <-chan T) T {
	ChanBegin(site)
	v := <-ch
	ChanEnd()
	return v
}

// Recv2 replaces the two-valued receive.
func Recv2[T any](site string, ch <-chan T) (T, bool) {
	ChanBegin(site)
	v, ok := <-ch
	ChanEnd()
	return v, ok
}

// Close replaces the close built-in (closing releases every receiver).
func Close[T any](site string, ch chan<- T) {
	ChanBegin(site)
	close(ch)
	ChanEnd()
}

// ---------------------------------------------------------------- blocked inside uninstrumented code
//
// The simulator owns the blocking primitives of the instrumented packages.
// Code under test may still block inside a dependency: io.Pipe, a library's
// own channels or condition variables.  The baton holder would then be parked
// in the Go runtime with the baton in its hand.  A watchdog goroutine notices
// (no scheduling step for two ticks, the holder's goroutine in a blocking wait
// state), deschedules the holder as if it had blocked on a simulated primitive
// and hands the baton on.  When whatever it waited for happens, the task runs
// on until its next call into simrt; every entry point passes through a gate
// that, while any task is in this state, compares the caller's goroutine with
// the baton holder's and parks a caller that is not the holder until it is
// scheduled again.  Before each scheduling decision the tasks in this state
// are given time to either reach the gate or park again, so that what is
// runnable at a decision is a function of what happened before it.

// EnterServer / LeaveServer bracket the execution of the system under test by
// a task; the watchdog never deschedules a task that is waiting in harness code.
func EnterServer() {
	if s := gated(); s != nil && s.cur != nil {
		atomic.AddInt32(&s.cur.inServer, 1)
	}
}

func LeaveServer() {
	if s := gated(); s != nil && s.cur != nil {
		atomic.AddInt32(&s.cur.inServer, -1)
	}
}

func gated() *Sim {
	s := active
	if s != nil {
		s.beat++ // read by the watchdog: a holder that keeps calling into simrt is not parked
		if atomic.LoadInt32(&s.implicit) != 0 {
			s.gateSlow()
		}
	}
	return s
}

func (s *Sim) gateSlow() {
	atomic.AddInt32(&s.inGate, 1)
	gid := curGID()
	s.impMu.Lock()
	cur := s.cur
	if cur != nil && cur.gid == gid {
		s.impMu.Unlock()
		atomic.AddInt32(&s.inGate, -1)
		return
	}
	s.gidMu.Lock()
	t := s.byGID[gid]
	s.gidMu.Unlock()
	if t == nil || !t.implicit {
		s.impMu.Unlock()
		atomic.AddInt32(&s.inGate, -1)
		return // a helper goroutine of the baton holder
	}
	s.impMu.Unlock()
	atomic.AddInt32(&s.inGate, -1)
	atomic.StoreInt32(&t.chanEnd, 1)
	<-t.wake
	atomic.StoreInt32(&t.waking, 0)
	t.implicit = false
	atomic.AddInt32(&s.implicit, -1)
	if s.aborted {
		panic(abortSentinel)
	}
}

func blockedInRuntime(st string) bool {
	for _, p := range []string{"chan receive", "chan send", "select", "sync.Cond.Wait", "sync.Mutex.Lock", "sync.RWMutex", "semacquire", "sync.WaitGroup.Wait", "sleep", "IO wait"} {
		if strings.HasPrefix(st, p) {
			return true
		}
	}
	return false
}

// WatchdogTick is the watchdog's sampling period.
var WatchdogTick = 500 * time.Microsecond

func (s *Sim) watchdog() {
	var lastSteps, lastBeat int64 = -1, -1
	var lastCur *Task
	stalled := 0
	tk := time.NewTicker(WatchdogTick)
	defer tk.Stop()
	for {
		select {
		case <-s.stopDog:
			return
		case <-tk.C:
		}
		cur, steps, beat := s.cur, atomic.LoadInt64(&s.steps), atomic.LoadInt64(&s.beat)
		if cur == nil || cur != lastCur || steps != lastSteps || beat != lastBeat {
			lastCur, lastSteps, lastBeat, stalled = cur, steps, beat, 0
			continue
		}
		stalled++
		if stalled < 2 || s.aborted || cur.state != stRunnable || atomic.LoadInt32(&cur.inServer) <= 0 || atomic.LoadInt32(&cur.simWait) > 0 || atomic.LoadInt32(&cur.waking) != 0 || atomic.LoadInt32(&s.inGate) > 0 {
			continue
		}
		status := gstatus(cur.gid)
		if !blockedInRuntime(status) {
			continue
		}
		// deschedule the holder from outside
		s.impMu.Lock()
		atomic.AddInt32(&s.implicit, 1)
		if s.cur != cur || atomic.LoadInt64(&s.steps) != steps || atomic.LoadInt64(&s.beat) != beat || atomic.LoadInt32(&s.inGate) > 0 ||
			!blockedInRuntime(gstatus(cur.gid)) || atomic.LoadInt32(&cur.simWait) > 0 || atomic.LoadInt32(&cur.waking) != 0 {
			atomic.AddInt32(&s.implicit, -1)
			s.impMu.Unlock()
			stalled = 0
			continue
		}
		s.ImplicitBlocks++
		atomic.StoreInt32(&cur.chanEnd, 0)
		cur.state = stChan
		cur.implicit = true
		cur.blockedOn = "a blocking call inside uninstrumented code (" + status + ": " + gwhere(cur.gid) + ")"
		cur.idx++
		s.steps++
		// nobody holds the baton while the decision is made: a task released
		// right now finds no holder at the gate and parks there
		s.cur = nil
		s.impMu.Unlock()
		s.handOverFromOutside(cur, cur.blockedOn, true)
		stalled = 0
	}
}

// settleImplicit gives every task descheduled by the watchdog time to either
// reach the gate or park again.
func (s *Sim) settleImplicit() {
	if atomic.LoadInt32(&s.implicit) == 0 {
		return
	}
	for _, x := range s.tasks {
		if x.state != stChan || !x.implicit {
			continue
		}
		deadline := time.Now().Add(chanSettleLimit)
		for spins := 0; ; spins++ {
			if atomic.LoadInt32(&x.chanEnd) == 1 || blockedInRuntime(gstatus(x.gid)) {
				break
			}
			if time.Now().After(deadline) {
				break
			}
			if spins < 50 {
				runtime.Gosched()
			} else {
				time.Sleep(50 * time.Microsecond)
			}
		}
	}
}

// ---------------------------------------------------------------- Pool

// Pool replaces sync.Pool.  sync.Pool's hits depend on the garbage collector
// and on which P a goroutine runs; a miss calls New, which may be
// instrumented code, so the number of scheduling points of a run would depend
// on them.  Inside a simulation the pool is a plain LIFO.
type Pool struct {
	New   func() interface{}
	items []interface{}
	owner *Sim // the simulation the items belong to: a pool (a package-level variable, usually) starts every run empty
	mu    sync.Mutex
	real  sync.Pool
}

// fresh drops what an earlier simulation of this process left in the pool, so
// that a run is a function of its plan and not of the runs before it.
func (p *Pool) fresh(s *Sim) {
	if p.owner != s {
		p.owner, p.items = s, nil
	}
}

func (p *Pool) Get() interface{} {
	s := gated()
	if s == nil || s.cur == nil {
		if x := p.real.Get(); x != nil {
			return x
		}
		if p.New != nil {
			return p.New()
		}
		return nil
	}
	p.mu.Lock()
	p.fresh(s)
	if n := len(p.items); n > 0 {
		x := p.items[n-1]
		p.items = p.items[:n-1]
		p.mu.Unlock()
		return x
	}
	p.mu.Unlock()
	if p.New != nil {
		return p.New()
	}
	return nil
}

func (p *Pool) Put(x interface{}) {
	s := gated()
	if s == nil || s.cur == nil {
		p.real.Put(x)
		return
	}
	p.mu.Lock()
	p.fresh(s)
	p.items = append(p.items, x)
	p.mu.Unlock()
}
