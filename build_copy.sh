#!/bin/bash
# usage: build_copy.sh <src repo> <dst dir>  -- copy the simulated packages of the repo (non-test files)
set -e
SRC=$1; DST=$2
mkdir -p $DST
cd $SRC
for d in . backend/s3mem backend/s3bolt backend/s3afero internal/goskipiter internal/s3io; do
  mkdir -p $DST/$d
  for f in $d/*.go; do
    case $f in *_test.go) ;; ./makefile.go) ;; *) cp $f $DST/$d/ ;; esac
  done
done
cp go.mod go.sum $DST/
printf '\nrequire simrt v0.0.0\nreplace simrt => /verif/simrt\n' >> $DST/go.mod
