#!/bin/bash
# Self-validation of the simulator (DESIGN.md §8).
#   selftest.sh determinism [N]   N seeds per property, each executed in separate processes at
#                                 GOMAXPROCS 1, 4 and 16 and with 1 and 8 processes running at once; event-log hashes must agree
#   selftest.sh fidelity          simfs vs a real directory, simnet vs a real net/http server (differential)
#   selftest.sh suite             the repository's own test suite on the instrumented copy
#   selftest.sh seeded [id...]    every change in /verif/seeded must make the check named in its meta.json fail
#   selftest.sh mutants [ID...]   every patch in /verif/mutants must make its property's quick check fail
#   selftest.sh benign [id...]    every property-preserving change in /verif/benign must leave its checks quiet
#   selftest.sh channels          simrt's channel fallback: benign channel-using change quiet, breaking one caught, replay exact
set -u
cd /verif
export GOFLAGS=-mod=mod GOPROXY=off GOSUMDB=off GOTOOLCHAIN=local
PROPS="C01 C02 C03 C04 C05 C06 C07 C08 C09 C10 C12 C13 C14 C15"
case "${1:-}" in
determinism)
  N=${2:-64}
  BIN=$(./build.sh) || exit 2
  T=$(mktemp -d /dev/shm/verif-selftest.XXXXXX); trap 'rm -rf "$T"' EXIT
  rc=0
  for p in $PROPS; do
    GOMAXPROCS=1 $BIN -prop $p -hashes $N > $T/$p.a &
    GOMAXPROCS=4 $BIN -prop $p -hashes $N > $T/$p.b &
    GOMAXPROCS=16 $BIN -prop $p -hashes $N > $T/$p.c &
    for j in 1 2 3 4 5; do GOMAXPROCS=1 $BIN -prop $p -hashes $N > $T/$p.d$j & done
    wait
    for f in $T/$p.b $T/$p.c $T/$p.d1 $T/$p.d2 $T/$p.d3 $T/$p.d4 $T/$p.d5; do
      if ! cmp -s $T/$p.a $f; then echo "NON-DETERMINISTIC: $p"; diff $T/$p.a $f | head -5; rc=2; fi
    done
    echo "$p: $N seeds x 8 processes agree: $(md5sum < $T/$p.a | cut -c1-12)"
  done
  exit $rc ;;
suite)
  S=$(mktemp -d /dev/shm/verif-suite.XXXXXX); trap 'rm -rf "$S"' EXIT
  IKEY=$(find /verif/instrument -name '*.go' -o -name go.mod | sort | xargs sha256sum | sha256sum | cut -c1-16)
  ./build.sh >/dev/null || exit 2
  cp -r ${VERIF_REPO:-/repo}/. $S/repo; rm -rf $S/repo/.git
  printf '\nrequire simrt v0.0.0\nreplace simrt => /verif/simrt\n' >> $S/repo/go.mod
  (cd $S/repo && /verif/.cache/instrument-$IKEY $S/repo && go test -vet=off -count=1 . ./backend/... ./internal/goskipiter/... 2>&1 | tail -8)
  exit ${PIPESTATUS[0]} ;;
seeded)
  # every independent seeded change must make the check named in its meta.json fail
  shift
  rc=0
  for d in seeded/*/; do
    id=$(basename $d)
    prop=$(python3 -c "import json;print(json.load(open('$d/meta.json'))['check_property'] or '')")
    if [ $# -gt 0 ] && ! echo " $* " | grep -q " $id "; then continue; fi
    if [ -z "$prop" ]; then echo "n/a      $id (recorded miss: $(python3 -c "import json;print(json.load(open('$d/meta.json'))['note'][:90])"))"; continue; fi
    W=$(mktemp -d /dev/shm/verif-seeded.XXXXXX)
    git -C /repo worktree add -q --detach $W HEAD 2>/dev/null || { echo "worktree failed"; exit 2; }
    if ! git -C $W apply $PWD/$d/patch.diff 2>/dev/null; then echo "SKIP (does not apply): $id"; git -C /repo worktree remove --force $W; continue; fi
    out=$(VERIF_REPO=$W VERIF_SECONDS=${MUTANT_SECONDS:-45} ./check.sh $prop quick 2>&1); code=$?
    if [ $code -eq 1 ]; then echo "caught   $id by $prop: $(echo "$out" | grep -m1 '^violation' | cut -c12-150)";
    else echo "MISSED   $id by $prop (exit $code)"; rc=1; fi
    git -C /repo worktree remove --force $W 2>/dev/null; rm -rf $W
  done
  exit $rc ;;
fidelity)
  # stub fidelity: simfs against BasePathFs(OsFs) on a real directory, simnet against a real net/http server
  S=$(mktemp -d /dev/shm/verif-fid.XXXXXX); trap 'rm -rf "$S"' EXIT
  ./build.sh >/dev/null || exit 2
  IKEY=$(find /verif/instrument -name '*.go' -o -name go.mod | sort | xargs sha256sum | sha256sum | cut -c1-16)
  ./build_copy.sh ${VERIF_REPO:-/repo} $S/repo && (cd $S/repo && /verif/.cache/instrument-$IKEY $S/repo >/dev/null) && ./third_party/patch_bbolt.sh $S/bbolt || exit 2
  sed '/^replace /d' sim/go.mod > $S/go.mod
  printf 'replace simrt => /verif/simrt\nreplace github.com/johannesboyne/gofakes3 => %s/repo\nreplace go.etcd.io/bbolt => %s/bbolt\n' $S $S >> $S/go.mod
  cp ${VERIF_REPO:-/repo}/go.sum $S/go.sum
  (cd sim && go test -modfile=$S/go.mod -count=1 -v -run 'TestFidelityAgainstOsFs|TestSimnetAgainstRealServer' ./simfs ./engine 2>&1 | grep -v "^=== RUN" | tail -8)
  exit ${PIPESTATUS[0]} ;;
mutants)
  shift
  rc=0
  for m in mutants/*.patch; do
    id=$(basename $m | cut -d- -f1)
    if [ $# -gt 0 ] && ! echo " $* " | grep -q " $id "; then continue; fi
    W=$(mktemp -d /dev/shm/verif-mutant.XXXXXX)
    git -C /repo worktree add -q --detach $W HEAD 2>/dev/null || { cp -r /repo/. $W; }
    if ! git -C $W apply $PWD/$m 2>/dev/null; then echo "SKIP (does not apply): $m"; git -C /repo worktree remove --force $W 2>/dev/null; rm -rf $W; continue; fi
    out=$(VERIF_REPO=$W VERIF_SECONDS=${MUTANT_SECONDS:-30} ./check.sh $id quick 2>&1); code=$?
    if [ $code -eq 1 ]; then echo "caught   $m: $(echo "$out" | grep -m1 '^violation' | cut -c1-160)";
    else echo "MISSED   $m (exit $code)"; rc=1; fi
    git -C /repo worktree remove --force $W 2>/dev/null; rm -rf $W
  done
  exit $rc ;;
benign)
  # every property-preserving change in /verif/benign must leave the checks named in its meta.json quiet
  shift
  rc=0
  for d in benign/*/; do
    id=$(python3 -c "import json;print(json.load(open('$d/meta.json'))['id'])")
    if [ $# -gt 0 ] && ! echo " $* " | grep -q " $id "; then continue; fi
    props=$(python3 -c "import json;print(' '.join(json.load(open('$d/meta.json'))['checks_run'][:${BENIGN_MAX_CHECKS:-99}]))")
    W=$(mktemp -d /dev/shm/verif-benign.XXXXXX)
    git -C /repo worktree add -q --detach $W HEAD 2>/dev/null || { echo "worktree failed"; exit 2; }
    if ! git -C $W apply $PWD/$d/patch.diff 2>/dev/null; then echo "SKIP (does not apply): $id"; git -C /repo worktree remove --force $W; continue; fi
    for p in $props; do
      out=$(VERIF_REPO=$W VERIF_SECONDS=${MUTANT_SECONDS:-25} ./check.sh $p quick 2>&1); code=$?
      if [ $code -eq 0 ]; then echo "quiet    $id under $p";
      elif [ $code -eq 1 ]; then echo "ALARM    $id under $p: $(echo "$out" | grep -m1 '^violation' | cut -c12-150)"; rc=1;
      else echo "NO VERDICT $id under $p (exit $code)"; rc=1; fi
    done
    git -C /repo worktree remove --force $W 2>/dev/null; rm -rf $W
  done
  exit $rc ;;
channels)
  # the channel fallback of simrt: a benign change that uses channels, select, range over a
  # channel and sync.Cond must leave C02 and C07 quiet; one that acknowledges a write before it
  # landed must be caught, and its replay must hash identically three times
  rc=0
  for kind in benign breaking; do
    W=$(mktemp -d /dev/shm/verif-chan.XXXXXX)
    git -C /repo worktree add -q --detach $W HEAD 2>/dev/null || { echo "worktree failed"; exit 2; }
    if ! git -C $W apply $PWD/selftest/channels-$kind.patch 2>/dev/null; then echo "SKIP (does not apply): channels-$kind"; git -C /repo worktree remove --force $W; continue; fi
    for p in C02 C07; do
      out=$(VERIF_REPO=$W VERIF_SECONDS=${MUTANT_SECONDS:-20} ./check.sh $p quick 2>&1); code=$?
      ops=$(echo "$out" | grep -o 'chanops=[0-9]*' | head -1)
      if [ $kind = benign ]; then
        if [ $code -eq 0 ]; then echo "quiet    channels-benign under $p ($ops)"; else echo "ALARM    channels-benign under $p (exit $code)"; echo "$out" | grep '^violation' | head -3; rc=1; fi
      elif [ $p = C02 ]; then
        if [ $code -eq 1 ]; then
          rp=$(echo "$out" | grep -m1 '^VIOLATION' | sed 's/.*replay=//')
          h=$(for i in 1 2 3; do VERIF_REPO=$W ./check.sh C02 --replay $rp 2>&1 | grep loghash; done | sort -u | wc -l)
          echo "caught   channels-breaking by C02; replay hashes distinct=$h"; [ "$h" = 1 ] || rc=1
        else echo "MISSED   channels-breaking by C02 (exit $code)"; rc=1; fi
      fi
    done
    git -C /repo worktree remove --force $W 2>/dev/null; rm -rf $W
  done
  exit $rc ;;
*) echo "usage: selftest.sh determinism|suite|fidelity|mutants|seeded|benign|channels" >&2; exit 2 ;;
esac
