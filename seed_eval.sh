#!/bin/bash
# usage: seed_eval.sh <agent dir, e.g. /tmp/agents/wt-C07/MUTANT/A> <seed id, e.g. C07-a-desc> <demo dir in repo> <go test -run pattern> [property ids to check...]
# 1. confirms: patch applies, suite passes, demo fails with the patch and passes without
# 2. runs the given property checks (quick) against the patched tree and reports which catch it
set -u
export GOFLAGS=-mod=mod GOPROXY=off GOSUMDB=off GOTOOLCHAIN=local
SRC=$1; ID=$2; DEMODIR=$3; RUN=$4; shift 4
W=$(mktemp -d /dev/shm/seed-eval.XXXXXX)
git -C /repo worktree add -q --detach $W HEAD || exit 2
trap 'git -C /repo worktree remove --force $W 2>/dev/null; rm -rf $W' EXIT
cd $W
git apply $SRC/patch.diff || { echo "RESULT $ID: patch does not apply"; exit 3; }
if ! (go build ./... && go test -vet=off -count=1 ./... >/dev/shm/seed-suite.log 2>&1); then echo "RESULT $ID: suite FAILS with the patch"; tail -5 /dev/shm/seed-suite.log; exit 3; fi
echo "suite passes with the patch"
cp $SRC/demo_test.go $W/$DEMODIR/zz_seed_demo_test.go
go test ${SEED_TEST_FLAGS:-} -vet=off -count=1 -run "$RUN" ./$DEMODIR > /dev/shm/seed-demo-with.log 2>&1; with=$?
git checkout -q -- .   # (no git stash: the stash is shared between worktrees)
go test ${SEED_TEST_FLAGS:-} -vet=off -count=1 -run "$RUN" ./$DEMODIR > /dev/shm/seed-demo-without.log 2>&1; without=$?
git apply $SRC/patch.diff
echo "demo: with patch exit=$with, without patch exit=$without"
if [ $with -eq 0 ] || [ $without -ne 0 ]; then echo "RESULT $ID: demonstration not confirmed"; tail -8 /dev/shm/seed-demo-with.log; tail -5 /dev/shm/seed-demo-without.log; fi
rm -f $W/$DEMODIR/zz_seed_demo_test.go
caught=""
for p in "$@"; do
  out=$(cd /verif && VERIF_REPO=$W VERIF_SECONDS=${SEED_SECONDS:-40} ./check.sh $p quick 2>&1); code=$?
  line=$(echo "$out" | grep -m1 '^violation' | cut -c1-200)
  echo "check $p: exit $code $line"
  [ $code -eq 1 ] && caught="$caught $p"
done
echo "RESULT $ID: demo_with=$with demo_without=$without caught_by=[$caught ]"
