#!/bin/bash
# Builds simcheck against an instrumented scratch copy of /repo's current
# working tree and prints the path of the binary.  The result is cached under
# /verif/.cache keyed by the content of every input, so a rebuild is a no-op
# when neither /repo nor the framework changed.
set -e
export GOFLAGS=-mod=mod GOPROXY=off GOSUMDB=off GOTOOLCHAIN=local
VERIF=/verif
REPO=${VERIF_REPO:-/repo}
CACHE=$VERIF/.cache
mkdir -p $CACHE
exec 9>$CACHE/lock
flock 9

srcs() {
  (cd $REPO && for d in . backend/s3mem backend/s3bolt backend/s3afero internal/goskipiter internal/s3io; do ls $d/*.go 2>/dev/null | grep -v _test.go; done; echo go.mod; echo go.sum) | sort | sed "s#^#$REPO/#"
  find $VERIF/sim $VERIF/simrt $VERIF/instrument $VERIF/third_party -type f \( -name '*.go' -o -name 'go.mod' -o -name '*.sh' \) | sort
  echo $VERIF/build.sh; echo $VERIF/build_copy.sh
}
KEY=$(srcs | xargs sha256sum | sha256sum | cut -c1-24)
BIN=$CACHE/$KEY/simcheck
if [ -x "$BIN" ]; then touch "$CACHE/$KEY"; echo "$BIN"; exit 0; fi

S=$(mktemp -d /dev/shm/verif-build.XXXXXX 2>/dev/null || mktemp -d)
trap 'rm -rf "$S"' EXIT
{
  IKEY=$(find $VERIF/instrument -name '*.go' -o -name go.mod | sort | xargs sha256sum | sha256sum | cut -c1-16)
  INST=$CACHE/instrument-$IKEY
  if [ ! -x "$INST" ]; then (cd $VERIF/instrument && go build -o "$INST" .); fi
  $VERIF/build_copy.sh $REPO $S/repo
  (ulimit -v 12000000; cd $S/repo && "$INST" $S/repo)   # an instrumenter gone wrong must not eat the machine
  $VERIF/third_party/patch_bbolt.sh $S/bbolt
  cp $VERIF/sim/go.mod $S/go.mod
  sed -i '/^replace /d' $S/go.mod
  cat >> $S/go.mod <<EOM
replace simrt => $VERIF/simrt
replace github.com/johannesboyne/gofakes3 => $S/repo
replace go.etcd.io/bbolt => $S/bbolt
EOM
  cp $REPO/go.sum $S/go.sum
  mkdir -p $CACHE/$KEY
  (cd $VERIF/sim && go build -trimpath -modfile=$S/go.mod -o $CACHE/$KEY/simcheck.tmp ./cmd/simcheck)
  mv $CACHE/$KEY/simcheck.tmp $BIN
  # keep the cache small: the newest four builds, and whatever was used (see
  # the touch above) within the last hour - a check running against another
  # tree at the same time must not lose its binary to this build
  for d in $(ls -dt $CACHE/*/ 2>/dev/null | tail -n +5); do
    if [ -z "$(find "$d" -maxdepth 0 -mmin -60)" ]; then rm -rf "$d"; fi
  done
} >&2
echo "$BIN"
