#!/usr/bin/env python3
"""mkmutant.py <name> <file> <<< 'OLD\n===\nNEW'  -- make a one-replacement mutant patch of /repo HEAD,
check that it compiles and passes the repository's suite, and store it as /verif/mutants/<name>.patch"""
import sys,subprocess,os,tempfile,shutil
name,file=sys.argv[1],sys.argv[2]
old,new=sys.stdin.read().split('\n===\n')
new=new.rstrip('\n'); old=old.rstrip('\n')
w=tempfile.mkdtemp(prefix='mut',dir='/dev/shm')
subprocess.check_call(['git','-C','/repo','worktree','add','-q','--detach',w,'HEAD'])
try:
    p=os.path.join(w,file); s=open(p).read()
    if s.count(old)!=1:
        print('OLD matches',s.count(old),'times'); sys.exit(1)
    open(p,'w').write(s.replace(old,new))
    env=dict(os.environ,GOFLAGS='-mod=mod',GOPROXY='off',GOSUMDB='off',GOTOOLCHAIN='local')
    r=subprocess.run('go build ./... && go test -vet=off -count=1 ./... 2>&1 | grep -v "no test files"',shell=True,cwd=w,env=env,capture_output=True,text=True)
    ok = r.returncode==0 and 'FAIL' not in r.stdout and 'panic' not in r.stdout
    print(r.stdout[-600:] if not ok else 'suite passes')
    if not ok: sys.exit(1)
    d=subprocess.run(['git','-C',w,'diff'],capture_output=True,text=True).stdout
    open('/verif/mutants/%s.patch'%name,'w').write(d)
    print('wrote',name)
finally:
    subprocess.call(['git','-C','/repo','worktree','remove','--force',w])
    shutil.rmtree(w,ignore_errors=True)
