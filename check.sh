#!/bin/bash
# usage: check.sh <property id> [quick|thorough]        run the check
#        check.sh <property id> --replay <file> [-v]    re-execute a replay file
#        check.sh selftest <determinism|suite|mutants>  self-validation (DESIGN §8)
# exit 0: held on everything explored; 1: VIOLATION line printed; 2: infrastructure
set -u
cd /verif
export GOFLAGS=-mod=mod GOPROXY=off GOSUMDB=off GOTOOLCHAIN=local
ID=${1:?property id}
if [ "$ID" = selftest ]; then shift; exec /verif/selftest.sh "$@"; fi
BIN=$(/verif/build.sh) || { echo "check.sh: build failed" >&2; exit 2; }
if [ "${2:-}" = "--replay" ]; then
  shift 2
  exec "$BIN" -prop "$ID" -replay "$@"
fi
TIER=${2:-${VERIF_TIER:-quick}}
mkdir -p evidence replays
EXTRA=()
[ -n "${VERIF_SECONDS:-}" ] && EXTRA+=(-seconds "$VERIF_SECONDS")
[ -n "${VERIF_WORKERS:-}" ] && EXTRA+=(-workers "$VERIF_WORKERS")
exec "$BIN" -prop "$ID" -tier "$TIER" -seed "${VERIF_SEED:-1}" -evidence "evidence/$ID.json" \
  -findings known_findings.txt -replays replays -regress regress "${EXTRA[@]}"
