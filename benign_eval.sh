#!/bin/bash
# usage: benign_eval.sh <dir with patch.diff, demo_test.go> <id> <demo dir in repo> [property ids to check...]
# A property-preserving change: the patch must apply, the suite and the positive test must pass
# with it, and every given check must stay quiet (exit 0) on the patched tree.
set -u
export GOFLAGS=-mod=mod GOPROXY=off GOSUMDB=off GOTOOLCHAIN=local
SRC=$1; ID=$2; DEMODIR=$3; shift 3
W=$(mktemp -d /dev/shm/benign-eval.XXXXXX)
git -C /repo worktree add -q --detach $W HEAD || exit 2
trap 'git -C /repo worktree remove --force $W 2>/dev/null; rm -rf $W' EXIT
cd $W
git apply $SRC/patch.diff || { echo "RESULT $ID: patch does not apply"; exit 3; }
if ! (go build ./... && go test -vet=off -count=1 ./... >/dev/shm/benign-suite-$$.log 2>&1); then echo "RESULT $ID: suite FAILS with the patch"; tail -5 /dev/shm/benign-suite-$$.log; exit 3; fi
if [ -f $SRC/demo_test.go ]; then
  RUN=$(grep -ho "^func Test[A-Za-z0-9_]*" $SRC/demo_test.go | sed 's/func //' | paste -sd'|')
  cp $SRC/demo_test.go $W/$DEMODIR/zz_benign_demo_test.go
  go test -tags seeddemo -vet=off -count=1 -run "$RUN" ./$DEMODIR > /dev/shm/benign-demo-$$.log 2>&1; demo=$?
  rm -f $W/$DEMODIR/zz_benign_demo_test.go
else demo=-1; fi
alarms=""; infra=""
for p in "$@"; do
  out=$(cd /verif && VERIF_REPO=$W VERIF_SECONDS=${BENIGN_SECONDS:-25} VERIF_WORKERS=${BENIGN_WORKERS:-8} ./check.sh $p quick 2>&1); code=$?
  echo "check $p: exit $code $(echo "$out" | grep -o 'chanops=[0-9]*' | head -1)"
  if [ $code -eq 1 ]; then alarms="$alarms $p"; echo "$out" | grep -A2 '^violation' | cut -c1-300 | head -12; fi
  if [ $code -ge 2 ]; then infra="$infra $p"; echo "$out" | tail -5 | cut -c1-300; fi
done
echo "RESULT $ID: positive_test=$demo alarms=[$alarms ] infra=[$infra ]"
rm -f /dev/shm/benign-suite-$$.log /dev/shm/benign-demo-$$.log
