module verif/sim

go 1.22

require (
	github.com/anishathalye/porcupine v1.3.0
	github.com/johannesboyne/gofakes3 v0.0.0
	github.com/spf13/afero v1.2.1
	go.etcd.io/bbolt v1.3.5
	simrt v0.0.0
)

require (
	github.com/aws/aws-sdk-go v1.44.256 // indirect
	github.com/ryszard/goskiplist v0.0.0-20150312221310-2dfbae5fcf46 // indirect
	golang.org/x/text v0.9.0 // indirect
	gopkg.in/mgo.v2 v2.0.0-20180705113604-9856a29383ce // indirect
)

replace simrt => /verif/simrt

replace github.com/johannesboyne/gofakes3 => /dev/shm/b1/repo

replace go.etcd.io/bbolt => /dev/shm/b1/bbolt
