// Package simnet is the simulated transport: a request is built as wire bytes,
// parsed by the real net/http request parser from a connection whose reads the
// simulator fragments, stalls and aborts, and served by calling the handler
// directly with a response writer that follows net/http's observable rules.
package simnet

import (
	"bufio"
	"bytes"
	"errors"
	"fmt"
	"io"
	"math/rand"
	"net/http"
	"runtime/debug"
	"strconv"
	"strings"

	"simrt"
)

// Request is a request in wire terms.
type Request struct {
	Method  string
	Target  string      // request-target as sent: escaped path plus ?rawquery
	Host    string      // Host header ("sim" if empty)
	Headers [][2]string // exactly as sent, in order
	Body    []byte      // body bytes actually sent

	// Transport behaviour
	Frag        string // whole | halves | bytes | random | boundary
	FragSeed    int64
	// LateEOF: the handler's body reader never reports io.EOF together with
	// data; the end of the body arrives as a separate (0, EOF) read, as under
	// HTTP/2 or behind middleware that buffered the body.  (net/http's HTTP/1
	// body reports EOF along with the last bytes of a Content-Length body.)
	LateEOF bool
	EOFWithData bool  // last fragment delivered together with io.EOF
	Stall       int   // extra scheduling points before each read
	AbortAfter  int   // >=0: connection dies after this many body bytes were delivered
	AbortEOF    bool  // the aborted connection ends with a clean EOF instead of a reset
	Hang        bool  // instead of dying at AbortAfter the client just stops sending (for the rest of the run)
	Splits      []int // explicit split offsets into the whole wire stream (overrides Frag)
	RespFailAt  int   // >0: response Write fails once this many bytes were written
	SlowReader  int   // extra scheduling points per response Write
}

// Response is what the client got.
type Response struct {
	Status      int
	Header      http.Header
	Body        []byte
	Panic       interface{}
	Stack       string
	ParseErr    error // http.ReadRequest refused the bytes (request never reached the handler)
	WriteFailed bool
	Reads       int // transport reads performed
	ShortReads  int // reads that returned fewer bytes than asked while data remained
}

// Wire renders the request bytes.
func (r *Request) Wire() (wire []byte, bodyStart int) {
	var b bytes.Buffer
	host := r.Host
	if host == "" {
		host = "sim"
	}
	fmt.Fprintf(&b, "%s %s HTTP/1.1\r\nHost: %s\r\n", r.Method, r.Target, host)
	for _, h := range r.Headers {
		fmt.Fprintf(&b, "%s: %s\r\n", h[0], h[1])
	}
	b.WriteString("\r\n")
	bodyStart = b.Len()
	b.Write(r.Body)
	return b.Bytes(), bodyStart
}

type conn struct {
	wire      []byte
	pos       int
	bodyStart int
	req       *Request
	rng       *rand.Rand
	splits    []int
	reads     int
	short     int
	dead      bool
	hung      bool
}

var errConnReset = errors.New("read tcp: connection reset by peer")

func (c *conn) Read(p []byte) (int, error) {
	for i := 0; i <= c.req.Stall; i++ {
		simrt.Point("net.read")
	}
	c.reads++
	if len(p) == 0 {
		return 0, nil
	}
	limit := len(c.wire)
	if c.req.AbortAfter >= 0 {
		if l := c.bodyStart + c.req.AbortAfter; l < limit {
			limit = l
			c.dead = true
		}
	}
	if c.pos >= limit {
		if c.dead && c.req.Hang && !c.hung {
			c.hung = true
			simrt.WaitExternal("a client that stopped sending")
		}
		if c.dead && !c.req.AbortEOF {
			return 0, errConnReset
		}
		return 0, io.EOF
	}
	remain := limit - c.pos
	n := remain
	if len(c.splits) > 0 {
		// explicit split points
		for len(c.splits) > 0 && c.splits[0] <= c.pos {
			c.splits = c.splits[1:]
		}
		if len(c.splits) > 0 && c.splits[0]-c.pos < n {
			n = c.splits[0] - c.pos
		}
	} else if c.pos >= c.bodyStart || c.req.Frag == "bytes" {
		switch c.req.Frag {
		case "halves":
			n = (remain + 1) / 2
		case "bytes":
			n = 1
			if l := len(c.wire) - c.bodyStart; l > 8192 {
				// single-byte reads of a large body cost too many steps: a few
				// thousand short reads whatever the size
				m := 64
				if l/2048 > m {
					m = l / 2048
				}
				n = 1 + c.rng.Intn(m)
			}
		case "random":
			switch c.rng.Intn(4) {
			case 0:
				n = 1 + c.rng.Intn(7)
			case 1:
				n = 1 + c.rng.Intn(remain)
			case 2:
				n = 1 + c.rng.Intn(4096)
			}
		case "boundary":
			// land reads just around 32 KiB multiples of the body
			off := c.pos - c.bodyStart
			next := (off/32768+1)*32768 + c.rng.Intn(3) - 1
			if d := next - off; d > 0 && d < n {
				n = d
			}
		}
	} else if c.bodyStart-c.pos < n && c.req.Frag != "" && c.req.Frag != "whole" {
		n = c.bodyStart - c.pos // headers first, body separately
	}
	if n > remain {
		n = remain
	}
	if n > len(p) {
		n = len(p)
	}
	if n < len(p) && n < remain {
		c.short++
	}
	copy(p, c.wire[c.pos:c.pos+n])
	c.pos += n
	simrt.Progress()
	if c.pos >= limit && !c.dead && c.req.EOFWithData {
		return n, io.EOF
	}
	return n, nil
}

type respWriter struct {
	req         *Request
	method      string
	hdr         http.Header
	frozen      http.Header
	status      int
	body        bytes.Buffer
	written     int
	failed      bool
	wroteHeader bool
}

func (w *respWriter) Header() http.Header { return w.hdr }

func (w *respWriter) WriteHeader(code int) {
	if w.wroteHeader {
		return // net/http logs "superfluous WriteHeader" and ignores it
	}
	w.wroteHeader = true
	w.status = code
	w.frozen = w.hdr.Clone()
}

func bodyAllowed(status int) bool {
	switch {
	case status >= 100 && status <= 199:
		return false
	case status == 204, status == 304:
		return false
	}
	return true
}

func (w *respWriter) Write(p []byte) (int, error) {
	for i := 0; i <= w.req.SlowReader; i++ {
		simrt.Point("net.write")
	}
	if !w.wroteHeader {
		w.WriteHeader(200)
	}
	if w.failed {
		return 0, errConnReset
	}
	if !bodyAllowed(w.status) {
		return 0, http.ErrBodyNotAllowed
	}
	if w.method == "HEAD" {
		return len(p), nil
	}
	if cl := w.frozen.Get("Content-Length"); cl != "" {
		if n, err := strconv.ParseInt(cl, 10, 64); err == nil && int64(w.written+len(p)) > n {
			return 0, http.ErrContentLength
		}
	}
	if w.req.RespFailAt > 0 && w.written+len(p) >= w.req.RespFailAt {
		k := w.req.RespFailAt - w.written
		if k > len(p) {
			k = len(p)
		}
		if k < 0 {
			k = 0
		}
		w.body.Write(p[:k])
		w.written += k
		w.failed = true
		return k, errConnReset
	}
	if w.req.SlowReader > 0 && len(p) > 1 {
		// a slow client drains the response over time: the bytes of p are
		// taken piece by piece with scheduling points in between, as the
		// real server's buffered, blocking socket writes do
		pieces := w.req.SlowReader + 1
		step := (len(p) + pieces - 1) / pieces
		for off := 0; off < len(p); off += step {
			end := off + step
			if end > len(p) {
				end = len(p)
			}
			if off > 0 {
				simrt.Point("net.write")
			}
			w.body.Write(p[off:end])
		}
		w.written += len(p)
		simrt.Progress()
		return len(p), nil
	}
	w.body.Write(p)
	w.written += len(p)
	return len(p), nil
}

// Do sends the request to the handler on the calling goroutine and returns
// what a client would have received.
func Do(h http.Handler, r *Request) *Response {
	wire, bodyStart := r.Wire()
	c := &conn{wire: wire, bodyStart: bodyStart, req: r, rng: rand.New(rand.NewSource(r.FragSeed)), splits: append([]int(nil), r.Splits...)}
	resp := &Response{}
	hreq, err := http.ReadRequest(bufio.NewReader(c))
	if err != nil {
		resp.ParseErr = err
		resp.Status = 400
		return resp
	}
	hreq.RemoteAddr = "sim:1"
	if r.LateEOF && hreq.Body != nil && hreq.Body != http.NoBody {
		hreq.Body = &lateEOF{rc: hreq.Body}
	}
	w := &respWriter{req: r, method: hreq.Method, hdr: http.Header{}}
	func() {
		defer func() {
			if p := recover(); p != nil {
				if simrt.IsAbort(p) {
					panic(p)
				}
				resp.Panic = p
				resp.Stack = string(debug.Stack())
			}
		}()
		simrt.EnterServer()
		defer simrt.LeaveServer()
		h.ServeHTTP(w, hreq)
	}()
	if !w.wroteHeader {
		w.WriteHeader(200)
	}
	resp.Status = w.status
	resp.Header = w.frozen
	resp.Body = w.body.Bytes()
	resp.WriteFailed = w.failed
	resp.Reads = c.reads
	resp.ShortReads = c.short
	return resp
}

// EscapePath percent-encodes a bucket/key path for the request line keeping
// '/' as is.
func EscapePath(p string) string {
	const hex = "0123456789ABCDEF"
	var b strings.Builder
	for i := 0; i < len(p); i++ {
		ch := p[i]
		switch {
		case ch >= 'a' && ch <= 'z', ch >= 'A' && ch <= 'Z', ch >= '0' && ch <= '9',
			ch == '-', ch == '_', ch == '.', ch == '~', ch == '/':
			b.WriteByte(ch)
		default:
			b.WriteByte('%')
			b.WriteByte(hex[ch>>4])
			b.WriteByte(hex[ch&15])
		}
	}
	return b.String()
}

type lateEOF struct {
	rc  io.ReadCloser
	err error
}

func (l *lateEOF) Read(p []byte) (int, error) {
	if l.err != nil {
		return 0, l.err
	}
	n, err := l.rc.Read(p)
	if n > 0 && err == io.EOF {
		l.err = err
		return n, nil
	}
	return n, err
}

func (l *lateEOF) Close() error { return l.rc.Close() }
