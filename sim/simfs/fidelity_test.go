package simfs

import (
	"errors"
	"fmt"
	"io"
	"math/rand"
	"os"
	"sort"
	"strings"
	"syscall"
	"testing"
	"time"

	"github.com/spf13/afero"
)

// errClass reduces an error to what gofakes3 can observe about it.
func errClass(err error) string {
	switch {
	case err == nil:
		return "ok"
	case os.IsNotExist(err):
		return "notexist"
	case os.IsExist(err):
		return "exist"
	case err == io.EOF:
		return "eof"
	}
	var errno syscall.Errno
	if errors.As(err, &errno) {
		return "errno:" + errno.Error()
	}
	if errors.Is(err, os.ErrClosed) {
		return "closed"
	}
	return "other"
}

type fsPair struct {
	sim  afero.Fs
	real afero.Fs
}

func dump(fs afero.Fs) string {
	var lines []string
	afero.Walk(fs, "/", func(p string, info os.FileInfo, err error) error {
		if err != nil {
			lines = append(lines, p+" ERR "+errClass(err))
			return nil
		}
		if info.IsDir() {
			lines = append(lines, p+"/")
			return nil
		}
		b, _ := afero.ReadFile(fs, p)
		lines = append(lines, fmt.Sprintf("%s=%q", p, string(b)))
		return nil
	})
	sort.Strings(lines)
	return strings.Join(lines, "\n")
}

// TestFidelityAgainstOsFs drives simfs and BasePathFs(OsFs) with the same
// random call sequences (the calls gofakes3 makes) and requires the same
// result classes and the same resulting trees.
func TestFidelityAgainstOsFs(t *testing.T) {
	names := []string{"a", "b", "a/b", "a/b/c", "a/c", "d/e/f", "d", "x.txt", "a/../b", "a/./c", "d//e"}
	for seed := int64(1); seed <= 300; seed++ {
		rng := rand.New(rand.NewSource(seed))
		dir := t.TempDir()
		now := time.Unix(1700000000, 0)
		pair := fsPair{sim: New(func() time.Time { now = now.Add(time.Second); return now }, time.Nanosecond), real: afero.NewBasePathFs(afero.NewOsFs(), dir)}
		type handles struct{ s, r afero.File }
		var open []handles
		for step := 0; step < 40; step++ {
			n := names[rng.Intn(len(names))]
			var cs, cr string
			op := rng.Intn(12)
			switch op {
			case 0:
				cs, cr = errClass(pair.sim.MkdirAll(n, 0755)), errClass(pair.real.MkdirAll(n, 0755))
			case 1:
				data := []byte(fmt.Sprintf("data-%d-%d", seed, step))
				fs, es := pair.sim.Create(n)
				fr, er := pair.real.Create(n)
				cs, cr = errClass(es), errClass(er)
				if es == nil && er == nil {
					_, ws := fs.Write(data)
					_, wr := fr.Write(data)
					cs, cr = cs+errClass(ws), cr+errClass(wr)
					if rng.Intn(3) == 0 {
						open = append(open, handles{fs, fr})
					} else {
						cs, cr = cs+errClass(fs.Close()), cr+errClass(fr.Close())
					}
				} else {
					if es == nil {
						fs.Close()
					}
					if er == nil {
						fr.Close()
					}
				}
			case 2:
				cs, cr = errClass(pair.sim.Remove(n)), errClass(pair.real.Remove(n))
			case 3:
				cs, cr = errClass(pair.sim.RemoveAll(n)), errClass(pair.real.RemoveAll(n))
			case 4:
				ss, es := pair.sim.Stat(n)
				sr, er := pair.real.Stat(n)
				cs, cr = errClass(es), errClass(er)
				if es == nil && er == nil {
					cs += fmt.Sprint(ss.IsDir(), ss.Name())
					cr += fmt.Sprint(sr.IsDir(), sr.Name())
					if !ss.IsDir() {
						cs += fmt.Sprint(ss.Size())
						cr += fmt.Sprint(sr.Size())
					}
				}
			case 5:
				ls, es := afero.ReadDir(pair.sim, n)
				lr, er := afero.ReadDir(pair.real, n)
				cs, cr = errClass(es), errClass(er)
				for _, e := range ls {
					cs += "," + e.Name() + fmt.Sprint(e.IsDir())
				}
				for _, e := range lr {
					cr += "," + e.Name() + fmt.Sprint(e.IsDir())
				}
			case 6:
				fs, es := pair.sim.Open(n)
				fr, er := pair.real.Open(n)
				cs, cr = errClass(es), errClass(er)
				if es == nil && er == nil {
					open = append(open, handles{fs, fr})
				} else {
					if es == nil {
						fs.Close()
					}
					if er == nil {
						fr.Close()
					}
				}
			case 7:
				if len(open) > 0 {
					i := rng.Intn(len(open))
					bs, br := make([]byte, 64), make([]byte, 64)
					ns, es := open[i].s.Read(bs)
					nr, er := open[i].r.Read(br)
					cs, cr = errClass(es)+string(bs[:ns]), errClass(er)+string(br[:nr])
				}
			case 8:
				if len(open) > 0 {
					i := rng.Intn(len(open))
					cs, cr = errClass(open[i].s.Close()), errClass(open[i].r.Close())
					open = append(open[:i], open[i+1:]...)
				}
			case 9:
				// Rename is not used by gofakes3; its error precedence is not compared
			case 10:
				fs, es := pair.sim.OpenFile(n, os.O_CREATE|os.O_TRUNC|os.O_WRONLY, 0666)
				fr, er := pair.real.OpenFile(n, os.O_CREATE|os.O_TRUNC|os.O_WRONLY, 0666)
				cs, cr = errClass(es), errClass(er)
				if es == nil {
					fs.Close()
				}
				if er == nil {
					fr.Close()
				}
			case 11:
				es, er := afero.Exists(pair.sim, n)
				_, _ = es, er
				a, e1 := afero.DirExists(pair.sim, n)
				b, e2 := afero.DirExists(pair.real, n)
				cs, cr = fmt.Sprint(a, errClass(e1)), fmt.Sprint(b, errClass(e2))
			}
			if cs != cr {
				t.Fatalf("seed %d step %d op %d on %q: simfs %q, OsFs %q", seed, step, op, n, cs, cr)
			}
		}
		for _, h := range open {
			h.s.Close()
			h.r.Close()
		}
		if a, b := dump(pair.sim), dump(pair.real); a != b {
			t.Fatalf("seed %d: trees differ\nsimfs:\n%s\nOsFs:\n%s", seed, a, b)
		}
	}
}
