// Package simfs is an afero.Fs over an in-memory inode tree that the simulator
// owns: every call is a scheduling point and a fault point, the whole tree can
// be snapshotted at any call boundary (process-kill crash model) and semantics
// follow POSIX as seen through afero.OsFs (in-place truncation of a shared
// inode, unlink of open files, ENOTEMPTY, ENOTDIR, EISDIR ...).
package simfs

import (
	"io"
	"os"
	"path"
	"sort"
	"strings"
	"syscall"
	"time"

	"simrt"

	"github.com/spf13/afero"
)

type node struct {
	dir      bool
	children map[string]*node
	data     []byte
	mtime    time.Time
	mode     os.FileMode
}

// Hooks lets the harness observe and perturb filesystem calls.
type Hooks struct {
	// Before is called at the start of every call, after the scheduling
	// point.  A non-nil error is returned to the caller of the fs call
	// (injected EIO); mut tells whether the call mutates the tree.
	Before func(op, name string, mut bool) error
	// Write is called for every File.Write with the number of bytes about to
	// be written; it returns how many to actually store and an error to
	// return (ENOSPC-style short write).  keep == n and nil means normal.
	Write func(f *File, p []byte) (keep int, err error)
	// Read may shorten a read (legal short read); it returns the maximum
	// number of bytes to deliver (>=1).
	Read func(n int) int
}

// FS implements afero.Fs.
type FS struct {
	root  *node
	Now   func() time.Time
	Res   time.Duration // mtime resolution
	Hooks Hooks
	Calls map[string]int64 // per-op counters (reach measurement)
	// DirSeed, when non-zero, makes Readdir hand out entries in directory
	// order as a disk does (a hash order fixed by the seed) and not sorted by
	// name; sorting is the caller's business (afero.ReadDir does it).
	DirSeed uint64
}

var _ afero.Fs = (*FS)(nil)

// New returns an empty filesystem.
func New(now func() time.Time, res time.Duration) *FS {
	if res <= 0 {
		res = time.Nanosecond
	}
	f := &FS{Now: now, Res: res, Calls: map[string]int64{}}
	f.root = &node{dir: true, children: map[string]*node{}, mode: os.ModeDir | 0777, mtime: f.now()}
	return f
}

func (fs *FS) now() time.Time {
	t := time.Unix(0, 0)
	if fs.Now != nil {
		t = fs.Now()
	}
	return t.Truncate(fs.Res)
}

func copyNode(n *node, m map[*node]*node) *node {
	c := &node{dir: n.dir, mtime: n.mtime, mode: n.mode}
	if m != nil {
		m[n] = c
	}
	if n.dir {
		c.children = make(map[string]*node, len(n.children))
		for k, v := range n.children {
			c.children[k] = copyNode(v, m)
		}
	} else {
		c.data = append([]byte(nil), n.data...)
	}
	return c
}

// Snapshot returns a deep copy of the tree as it is now (hooks not copied).
func (fs *FS) Snapshot() *FS {
	return &FS{root: copyNode(fs.root, nil), Now: fs.Now, Res: fs.Res, Calls: map[string]int64{}}
}

// SnapshotTorn returns a deep copy in which the pending write p on f has been
// applied only up to j bytes.
func (fs *FS) SnapshotTorn(f *File, p []byte, j int) *FS {
	m := map[*node]*node{}
	c := &FS{root: copyNode(fs.root, m), Now: fs.Now, Res: fs.Res, Calls: map[string]int64{}}
	if nn, ok := m[f.n]; ok && j > 0 {
		if j > len(p) {
			j = len(p)
		}
		writeAt(nn, p[:j], f.off)
	}
	return c
}

// Dump returns path -> content for every regular file and path+"/" -> "" for
// every directory (for whole-tree comparisons).
func (fs *FS) Dump() map[string]string {
	out := map[string]string{}
	var walk func(p string, n *node)
	walk = func(p string, n *node) {
		if n.dir {
			if p != "" {
				out[p+"/"] = ""
			}
			for k, c := range n.children {
				walk(p+"/"+k, c)
			}
			return
		}
		out[p] = string(n.data)
	}
	walk("", fs.root)
	return out
}

func clean(name string) string {
	return path.Clean("/" + name)
}

func split(p string) []string {
	p = strings.Trim(p, "/")
	if p == "" {
		return nil
	}
	return strings.Split(p, "/")
}

func perr(op, name string, e error) error { return &os.PathError{Op: op, Path: name, Err: e} }

// lookup walks to the node for p.
func (fs *FS) lookup(p string) (*node, error) {
	n := fs.root
	for _, c := range split(p) {
		if !n.dir {
			return nil, syscall.ENOTDIR
		}
		if len(c) > 255 {
			return nil, syscall.ENAMETOOLONG
		}
		nx, ok := n.children[c]
		if !ok {
			return nil, syscall.ENOENT
		}
		n = nx
	}
	return n, nil
}

func (fs *FS) parent(p string) (*node, string, error) {
	parts := split(p)
	if len(parts) == 0 {
		return nil, "", syscall.EINVAL
	}
	dir, err := fs.lookup("/" + strings.Join(parts[:len(parts)-1], "/"))
	if err != nil {
		return nil, "", err
	}
	if !dir.dir {
		return nil, "", syscall.ENOTDIR
	}
	base := parts[len(parts)-1]
	if len(base) > 255 {
		return nil, "", syscall.ENAMETOOLONG
	}
	return dir, base, nil
}

func (fs *FS) enter(op, name string, mut bool) error {
	simrt.Point("fs." + op)
	simrt.Progress()
	fs.Calls[op]++
	if fs.Hooks.Before != nil {
		if err := fs.Hooks.Before(op, name, mut); err != nil {
			return perr(op, name, err)
		}
	}
	return nil
}

func (fs *FS) Name() string { return "simfs" }

func (fs *FS) Create(name string) (afero.File, error) {
	return fs.OpenFile(name, os.O_RDWR|os.O_CREATE|os.O_TRUNC, 0666)
}

func (fs *FS) Mkdir(name string, perm os.FileMode) error {
	if err := fs.enter("mkdir", name, true); err != nil {
		return err
	}
	return fs.mkdir(clean(name), name, perm)
}

func (fs *FS) mkdir(p, name string, perm os.FileMode) error {
	dir, base, err := fs.parent(p)
	if err != nil {
		if err == syscall.EINVAL {
			return perr("mkdir", name, syscall.EEXIST)
		}
		return perr("mkdir", name, err)
	}
	if _, ok := dir.children[base]; ok {
		return perr("mkdir", name, syscall.EEXIST)
	}
	dir.children[base] = &node{dir: true, children: map[string]*node{}, mode: os.ModeDir | perm, mtime: fs.now()}
	dir.mtime = fs.now()
	return nil
}

func (fs *FS) MkdirAll(name string, perm os.FileMode) error {
	if err := fs.enter("mkdirall", name, true); err != nil {
		return err
	}
	p := clean(name)
	cur := ""
	for _, c := range split(p) {
		cur += "/" + c
		n, err := fs.lookup(cur)
		if err == nil {
			if !n.dir {
				return perr("mkdir", name, syscall.ENOTDIR)
			}
			continue
		}
		if err != syscall.ENOENT {
			return perr("mkdir", name, err)
		}
		if err := fs.mkdir(cur, name, perm); err != nil {
			return err
		}
	}
	return nil
}

func (fs *FS) Open(name string) (afero.File, error) {
	return fs.OpenFile(name, os.O_RDONLY, 0)
}

func (fs *FS) OpenFile(name string, flag int, perm os.FileMode) (afero.File, error) {
	mut := flag&(os.O_CREATE|os.O_TRUNC) != 0
	if err := fs.enter("open", name, mut); err != nil {
		return nil, err
	}
	p := clean(name)
	n, err := fs.lookup(p)
	switch {
	case err == nil:
		if flag&os.O_CREATE != 0 && flag&os.O_EXCL != 0 {
			return nil, perr("open", name, syscall.EEXIST)
		}
		if n.dir {
			if flag&(os.O_WRONLY|os.O_RDWR|os.O_TRUNC) != 0 {
				return nil, perr("open", name, syscall.EISDIR)
			}
		} else if flag&os.O_TRUNC != 0 {
			n.data = nil
			n.mtime = fs.now()
		}
	case err == syscall.ENOENT && flag&os.O_CREATE != 0:
		dir, base, perr2 := fs.parent(p)
		if perr2 != nil {
			return nil, perr("open", name, perr2)
		}
		n = &node{mode: perm, mtime: fs.now()}
		dir.children[base] = n
		dir.mtime = fs.now()
	default:
		return nil, perr("open", name, err)
	}
	f := &File{fs: fs, n: n, name: name, path: p, flag: flag}
	if flag&os.O_APPEND != 0 {
		f.off = int64(len(n.data))
	}
	return f, nil
}

func (fs *FS) Remove(name string) error {
	if err := fs.enter("remove", name, true); err != nil {
		return err
	}
	p := clean(name)
	dir, base, err := fs.parent(p)
	if err != nil {
		if err == syscall.EINVAL {
			err = syscall.EBUSY
		}
		return perr("remove", name, err)
	}
	n, ok := dir.children[base]
	if !ok {
		return perr("remove", name, syscall.ENOENT)
	}
	if n.dir && len(n.children) > 0 {
		return perr("remove", name, syscall.ENOTEMPTY)
	}
	delete(dir.children, base)
	dir.mtime = fs.now()
	return nil
}

func (fs *FS) RemoveAll(name string) error {
	if err := fs.enter("removeall", name, true); err != nil {
		return err
	}
	p := clean(name)
	dir, base, err := fs.parent(p)
	if err != nil {
		if err == syscall.EINVAL { // the root itself: empty it
			fs.root.children = map[string]*node{}
			return nil
		}
		if err == syscall.ENOENT {
			return nil
		}
		return perr("removeall", name, err)
	}
	if _, ok := dir.children[base]; ok {
		delete(dir.children, base)
		dir.mtime = fs.now()
	}
	return nil
}

func (fs *FS) Rename(oldname, newname string) error {
	if err := fs.enter("rename", oldname, true); err != nil {
		return err
	}
	op, np := clean(oldname), clean(newname)
	odir, obase, err := fs.parent(op)
	if err != nil {
		return &os.LinkError{Op: "rename", Old: oldname, New: newname, Err: err}
	}
	n, ok := odir.children[obase]
	if !ok {
		return &os.LinkError{Op: "rename", Old: oldname, New: newname, Err: syscall.ENOENT}
	}
	ndir, nbase, err := fs.parent(np)
	if err != nil {
		return &os.LinkError{Op: "rename", Old: oldname, New: newname, Err: err}
	}
	if op == np {
		return nil
	}
	if strings.HasPrefix(np, op+"/") {
		return &os.LinkError{Op: "rename", Old: oldname, New: newname, Err: syscall.EINVAL}
	}
	if t, ok := ndir.children[nbase]; ok {
		switch {
		case t.dir && !n.dir:
			return &os.LinkError{Op: "rename", Old: oldname, New: newname, Err: syscall.EISDIR}
		case !t.dir && n.dir:
			return &os.LinkError{Op: "rename", Old: oldname, New: newname, Err: syscall.ENOTDIR}
		case t.dir && len(t.children) > 0:
			return &os.LinkError{Op: "rename", Old: oldname, New: newname, Err: syscall.ENOTEMPTY}
		}
	}
	delete(odir.children, obase)
	ndir.children[nbase] = n
	odir.mtime, ndir.mtime = fs.now(), fs.now()
	return nil
}

func (fs *FS) Stat(name string) (os.FileInfo, error) {
	if err := fs.enter("stat", name, false); err != nil {
		return nil, err
	}
	n, err := fs.lookup(clean(name))
	if err != nil {
		return nil, perr("stat", name, err)
	}
	return info{path.Base(clean(name)), n.dir, int64(len(n.data)), n.mtime, n.mode}, nil
}

func (fs *FS) Chmod(name string, mode os.FileMode) error {
	if err := fs.enter("chmod", name, true); err != nil {
		return err
	}
	n, err := fs.lookup(clean(name))
	if err != nil {
		return perr("chmod", name, err)
	}
	n.mode = n.mode&os.ModeDir | mode.Perm()
	return nil
}

func (fs *FS) Chtimes(name string, atime, mtime time.Time) error {
	if err := fs.enter("chtimes", name, true); err != nil {
		return err
	}
	n, err := fs.lookup(clean(name))
	if err != nil {
		return perr("chtimes", name, err)
	}
	n.mtime = mtime.Truncate(fs.Res)
	return nil
}

type info struct {
	name  string
	dir   bool
	size  int64
	mtime time.Time
	mode  os.FileMode
}

func (i info) Name() string { return i.name }
func (i info) Size() int64 {
	if i.dir {
		return 4096
	}
	return i.size
}
func (i info) Mode() os.FileMode {
	if i.dir {
		return i.mode | os.ModeDir
	}
	return i.mode
}
func (i info) ModTime() time.Time { return i.mtime }
func (i info) IsDir() bool        { return i.dir }
func (i info) Sys() interface{}   { return nil }

// File is an open handle.
type File struct {
	fs     *FS
	n      *node
	name   string
	path   string
	flag   int
	off    int64
	closed bool
	dirpos int
}

var _ afero.File = (*File)(nil)

// Path returns the cleaned absolute path the handle was opened with.
func (f *File) Path() string { return f.path }

func (f *File) Name() string { return f.name }

func (f *File) enter(op string, mut bool) error {
	simrt.Point("file." + op)
	simrt.Progress()
	f.fs.Calls["f."+op]++
	if f.closed {
		return perr(op, f.name, os.ErrClosed)
	}
	if f.fs.Hooks.Before != nil {
		if err := f.fs.Hooks.Before("f."+op, f.name, mut); err != nil {
			return perr(op, f.name, err)
		}
	}
	return nil
}

func (f *File) Close() error {
	if err := f.enter("close", false); err != nil {
		return err
	}
	f.closed = true
	return nil
}

func (f *File) Read(p []byte) (int, error) {
	if err := f.enter("read", false); err != nil {
		return 0, err
	}
	if f.n.dir {
		return 0, perr("read", f.name, syscall.EISDIR)
	}
	if f.flag&os.O_WRONLY != 0 {
		return 0, perr("read", f.name, syscall.EBADF)
	}
	if f.off >= int64(len(f.n.data)) {
		return 0, io.EOF
	}
	want := len(p)
	if want == 0 {
		return 0, nil
	}
	if f.fs.Hooks.Read != nil {
		if m := f.fs.Hooks.Read(want); m >= 1 && m < want {
			want = m
		}
	}
	n := copy(p[:want], f.n.data[f.off:])
	f.off += int64(n)
	return n, nil
}

func (f *File) ReadAt(p []byte, off int64) (int, error) {
	if err := f.enter("readat", false); err != nil {
		return 0, err
	}
	if off >= int64(len(f.n.data)) {
		return 0, io.EOF
	}
	n := copy(p, f.n.data[off:])
	if n < len(p) {
		return n, io.EOF
	}
	return n, nil
}

func (f *File) Seek(offset int64, whence int) (int64, error) {
	if err := f.enter("seek", false); err != nil {
		return 0, err
	}
	var base int64
	switch whence {
	case io.SeekStart:
	case io.SeekCurrent:
		base = f.off
	case io.SeekEnd:
		base = int64(len(f.n.data))
	}
	if base+offset < 0 {
		return 0, perr("seek", f.name, syscall.EINVAL)
	}
	f.off = base + offset
	return f.off, nil
}

func writeAt(n *node, p []byte, off int64) {
	end := off + int64(len(p))
	if end > int64(len(n.data)) {
		nd := make([]byte, end)
		copy(nd, n.data)
		n.data = nd
	}
	copy(n.data[off:], p)
}

func (f *File) Write(p []byte) (int, error) {
	if err := f.enter("write", true); err != nil {
		return 0, err
	}
	if f.n.dir {
		return 0, perr("write", f.name, syscall.EBADF)
	}
	if f.flag&(os.O_WRONLY|os.O_RDWR) == 0 {
		return 0, perr("write", f.name, syscall.EBADF)
	}
	keep, werr := len(p), error(nil)
	if f.fs.Hooks.Write != nil {
		keep, werr = f.fs.Hooks.Write(f, p)
		if keep > len(p) {
			keep = len(p)
		}
	}
	if f.flag&os.O_APPEND != 0 {
		f.off = int64(len(f.n.data))
	}
	if keep > 0 {
		writeAt(f.n, p[:keep], f.off)
		f.off += int64(keep)
		f.n.mtime = f.fs.now()
	}
	if werr != nil {
		return keep, perr("write", f.name, werr)
	}
	return keep, nil
}

func (f *File) WriteAt(p []byte, off int64) (int, error) {
	if err := f.enter("writeat", true); err != nil {
		return 0, err
	}
	writeAt(f.n, p, off)
	f.n.mtime = f.fs.now()
	return len(p), nil
}

func (f *File) WriteString(s string) (int, error) { return f.Write([]byte(s)) }

func (f *File) Truncate(size int64) error {
	if err := f.enter("truncate", true); err != nil {
		return err
	}
	if size < int64(len(f.n.data)) {
		f.n.data = f.n.data[:size]
	} else {
		nd := make([]byte, size)
		copy(nd, f.n.data)
		f.n.data = nd
	}
	f.n.mtime = f.fs.now()
	return nil
}

func (f *File) Sync() error { return f.enter("sync", false) }

func (f *File) Stat() (os.FileInfo, error) {
	if err := f.enter("fstat", false); err != nil {
		return nil, err
	}
	return info{path.Base(f.path), f.n.dir, int64(len(f.n.data)), f.n.mtime, f.n.mode}, nil
}

func (f *File) Readdir(count int) ([]os.FileInfo, error) {
	if err := f.enter("readdir", false); err != nil {
		return nil, err
	}
	if !f.n.dir {
		return nil, perr("readdir", f.name, syscall.ENOTDIR)
	}
	names := make([]string, 0, len(f.n.children))
	for k := range f.n.children {
		names = append(names, k)
	}
	sort.Strings(names)
	if seed := f.fs.DirSeed; seed != 0 {
		h := func(s string) uint64 {
			x := seed ^ 14695981039346656037
			for i := 0; i < len(s); i++ {
				x = (x ^ uint64(s[i])) * 1099511628211
			}
			return x ^ x>>29
		}
		sort.SliceStable(names, func(i, j int) bool { return h(names[i]) < h(names[j]) })
	}
	if f.dirpos > len(names) {
		f.dirpos = len(names)
	}
	names = names[f.dirpos:]
	if count > 0 && len(names) > count {
		names = names[:count]
	}
	f.dirpos += len(names)
	out := make([]os.FileInfo, 0, len(names))
	for _, k := range names {
		c := f.n.children[k]
		out = append(out, info{k, c.dir, int64(len(c.data)), c.mtime, c.mode})
	}
	if count > 0 && len(out) == 0 {
		return out, io.EOF
	}
	return out, nil
}

func (f *File) Readdirnames(n int) ([]string, error) {
	fi, err := f.Readdir(n)
	out := make([]string, len(fi))
	for i, x := range fi {
		out[i] = x.Name()
	}
	return out, err
}
