// Command simcheck drives the deterministic-simulation checks.
//
//	simcheck -prop C07 -tier quick            search (parent: spawns workers)
//	simcheck -replay file.json                re-execute one plan
//	simcheck -worker ...                      internal
//
// exit 0: the property held on everything explored (known findings are
// printed as KNOWN-FINDING lines); exit 1: "VIOLATION property=<id>
// replay=<path>"; exit 2: infrastructure problem (never a violation).
package main

import (
	"bufio"
	"bytes"
	"encoding/json"
	"flag"
	"fmt"
	"hash/fnv"
	"os"
	"os/exec"
	"path/filepath"
	"runtime"
	"sort"
	"strconv"
	"strings"
	"time"

	"simrt"
	"verif/sim/engine"
)

var (
	fProp     = flag.String("prop", "", "property id")
	fTier     = flag.String("tier", "quick", "quick | thorough")
	fSeed     = flag.Int64("seed", 1, "VERIF_SEED")
	fWorkers  = flag.Int("workers", 0, "worker processes (default: cores)")
	fSeconds  = flag.Int("seconds", 0, "search budget in seconds (default per tier)")
	fRuns     = flag.Int("runs", 0, "max runs per worker (0 = time-bounded)")
	fEvidence = flag.String("evidence", "", "evidence file to write")
	fFindings = flag.String("findings", "", "known_findings.txt")
	fReplays  = flag.String("replays", "", "directory for replay files of new violations")
	fRegress  = flag.String("regress", "", "directory with regression plans (replayed first)")
	fReplay   = flag.String("replay", "", "replay one plan file")
	fJSON     = flag.Bool("json", false, "replay: print the result as JSON")
	fWorker   = flag.Bool("worker", false, "internal: run as a search worker")
	fIndex    = flag.Int("index", 0, "worker index")
	fStride   = flag.Int("stride", 1, "worker stride")
	fScratch  = flag.String("scratch", "", "scratch directory (default: /dev/shm or TMPDIR)")
	fVerbose  = flag.Bool("v", false, "replay: print the event log")
	fGen      = flag.Int64("gen", -1, "print the plan generated for this run index and exit")
	fNoShrink = flag.Bool("noshrink", false, "do not minimise")
	fHashes   = flag.Int("hashes", 0, "print 'index loghash schedule-fingerprint' for the first N run indices and exit (determinism self-test)")
)

func scratchDir() string {
	if *fScratch != "" {
		return *fScratch
	}
	if st, err := os.Stat("/dev/shm"); err == nil && st.IsDir() {
		return "/dev/shm"
	}
	return os.TempDir()
}

type knownFinding struct {
	Kind      string // known | fixed
	Property  string
	Signature string
	Replay    string
	Guard     string
	Text      string
}

func loadFindings(path string) ([]knownFinding, error) {
	if path == "" {
		return nil, nil
	}
	f, err := os.Open(path)
	if err != nil {
		if os.IsNotExist(err) {
			return nil, nil
		}
		return nil, err
	}
	defer f.Close()
	var out []knownFinding
	sc := bufio.NewScanner(f)
	sc.Buffer(make([]byte, 1<<20), 1<<20)
	for sc.Scan() {
		line := strings.TrimSpace(sc.Text())
		if line == "" || strings.HasPrefix(line, "#") {
			continue
		}
		var k knownFinding
		switch {
		case strings.HasPrefix(line, "known:"):
			k.Kind = "known"
			line = strings.TrimSpace(line[6:])
		case strings.HasPrefix(line, "fixed:"):
			k.Kind = "fixed"
			line = strings.TrimSpace(line[6:])
		default:
			continue
		}
		if i := strings.Index(line, " :: "); i >= 0 {
			k.Text = strings.TrimSpace(line[i+4:])
			line = line[:i]
		}
		// key=value fields; signature runs until " replay=" or " guard=" or end
		get := func(key string) string {
			i := strings.Index(line, key+"=")
			if i < 0 {
				return ""
			}
			rest := line[i+len(key)+1:]
			end := len(rest)
			for _, nk := range []string{" property=", " signature=", " replay=", " guard="} {
				if j := strings.Index(rest, nk); j >= 0 && j < end {
					end = j
				}
			}
			return strings.TrimSpace(rest[:end])
		}
		k.Property, k.Signature, k.Replay, k.Guard = get("property"), get("signature"), get("replay"), get("guard")
		if k.Kind == "fixed" && k.Text == "" {
			k.Text = line
		}
		out = append(out, k)
	}
	return out, sc.Err()
}

type workerOut struct {
	Runs        int               `json:"runs"`
	Nontrivial  []uint64          `json:"nontrivial"`
	Clauses     map[string]int    `json:"clauses"`
	Faults      map[string]int    `json:"faults"`
	Probes      map[string]int    `json:"probes"`
	Routes      map[string]int    `json:"routes"`
	Porcupine   map[string]int    `json:"porcupine"`
	Steps       int64             `json:"steps"`
	HandOffs    int64             `json:"handoffs"`
	SimSeconds  float64           `json:"simSeconds"`
	Ops         int               `json:"ops"`
	CrashPoints int               `json:"crashPoints"`
	KnownHits   map[string]int    `json:"knownHits"`
	Foreign     map[string]int    `json:"foreign"`
	ForeignEx   map[string]string `json:"foreignEx"`
	Violations  []workerViolation `json:"violations"`
	Samples     []string          `json:"samples"`
	Backends    map[string]int    `json:"backends"`
	Policies    map[string]int    `json:"policies"`
	Rechecked   int               `json:"rechecked"`
	Infra       string            `json:"infra"`
	ShrinkTries int               `json:"shrinkTries"`
	Configs     map[string]int    `json:"configs"`
	Hung        int64             `json:"hung"`        // index+1 of a run that exceeded the wall-clock limit (0: none)
	HungStalled bool              `json:"hungStalled"` // ... and during which no byte moved, no lock was taken and no file-system call was made
}

type workerViolation struct {
	Signature string `json:"signature"`
	Clause    string `json:"clause"`
	File      string `json:"file"`
	RunSeed   int64  `json:"runSeed"`
	OpsBefore int    `json:"opsBefore"`
	OpsAfter  int    `json:"opsAfter"`
}

func mixSeed(seed int64, i int64) int64 {
	x := uint64(seed)*0x9E3779B97F4A7C15 + uint64(i)*0xBF58476D1CE4E5B9 + 0x94D049BB133111EB
	x ^= x >> 31
	x *= 0xD6E8FEB86659FD93
	x ^= x >> 29
	return int64(x & 0x7fffffffffffffff)
}

func addMap(dst, src map[string]int) {
	for k, v := range src {
		dst[k] += v
	}
}

func guardsFor(known []knownFinding, prop string, runIndex int64) map[string]bool {
	g := map[string]bool{}
	if runIndex%10 == 0 {
		return g // 10 % of the runs run unguarded
	}
	for _, k := range known {
		if k.Kind == "known" && k.Guard != "" && (k.Property == prop || true) {
			g[k.Guard] = true
		}
	}
	return g
}

func execPlan(p *engine.Plan) *engine.Result { return engine.Execute(p, scratchDir()) }

func planSample(p *engine.Plan) string {
	var b strings.Builder
	cfg, _ := json.Marshal(p.Config)
	fmt.Fprintf(&b, "seed=%d config=%s", p.Seed, cfg)
	for ci, c := range p.Clients {
		fmt.Fprintf(&b, " | client%d:", ci)
		for i, op := range c {
			if i >= 10 {
				fmt.Fprintf(&b, " ...(+%d ops)", len(c)-i)
				break
			}
			j, _ := json.Marshal(op)
			s := string(j)
			if len(s) > 160 {
				s = s[:160] + "..."
			}
			b.WriteString(" " + s)
		}
	}
	return b.String()
}

func runWorker(known []knownFinding) {
	out := &workerOut{Clauses: map[string]int{}, Faults: map[string]int{}, Probes: map[string]int{}, Routes: map[string]int{}, Porcupine: map[string]int{},
		KnownHits: map[string]int{}, Foreign: map[string]int{}, ForeignEx: map[string]string{}, Backends: map[string]int{}, Policies: map[string]int{}, Configs: map[string]int{}}
	knownSig := map[string]bool{}
	for _, k := range known {
		if k.Kind == "known" && k.Property == *fProp {
			knownSig[k.Signature] = true
		}
	}
	deadline := time.Now().Add(time.Duration(*fSeconds) * time.Second)
	seen := map[uint64]bool{}
	cur := int64(-1)
	// watchdog: a run that exceeds the wall-clock limit is an infrastructure
	// failure (loop inside uninstrumented code), never a violation
	go func() {
		last, since := int64(-2), time.Now()
		prog, progSince := int64(-1), time.Now()
		for {
			time.Sleep(2 * time.Second)
			if n := simrt.ProgressCount(); n != prog {
				prog, progSince = n, time.Now()
			}
			if cur != last {
				last, since = cur, time.Now()
			} else if time.Since(since) > wallLimit {
				// spinning (nothing moved for nearly all of that time) or merely slow?
				out.HungStalled = time.Since(progSince) > wallLimit*9/10
				// hand over what the runs before this one produced (the run
				// itself is stuck and touches nothing), then give up
				fmt.Fprintf(os.Stderr, "simcheck worker: run index %d exceeded the wall-clock limit\n", cur)
				out.Hung = cur + 1
				for k := range seen {
					out.Nontrivial = append(out.Nontrivial, k)
				}
				if b, err := json.Marshal(out); err == nil {
					os.Stdout.Write(b)
					os.Exit(0)
				}
				os.Exit(3)
			}
		}
	}()
	for i := int64(*fIndex); ; i += int64(*fStride) {
		if *fRuns > 0 && out.Runs >= *fRuns {
			break
		}
		if *fRuns == 0 && time.Now().After(deadline) {
			break
		}
		cur = i
		fmt.Fprintf(os.Stderr, "RUN %d\n", i)
		seed := mixSeed(*fSeed, i)
		plan := engine.GenPlan(*fProp, seed, *fTier, guardsFor(known, *fProp, i))
		res := execPlan(plan)
		if strings.HasPrefix(res.Infra, "simulation artifact") {
			// the run is discarded, the search goes on (DESIGN 0.2: transactions
			// whose body runs goroutines of its own)
			out.Probes["run discarded: simulator cannot interleave inside bbolt"]++
			continue
		}
		if res.Infra != "" {
			out.Infra = fmt.Sprintf("run index %d seed %d: %s", i, seed, res.Infra)
			break
		}
		out.Runs++
		st := res.Stats
		addMap(out.Clauses, st.Clauses)
		addMap(out.Faults, st.Faults)
		addMap(out.Probes, st.Probes)
		addMap(out.Routes, st.Routes)
		addMap(out.Porcupine, st.Porcupine)
		out.Steps += st.Steps
		out.HandOffs += st.HandOffs
		out.SimSeconds += st.SimSeconds
		out.Ops += st.Ops
		out.CrashPoints += st.CrashPoints
		bk := plan.Config.Backend
		if plan.Config.FS != "" {
			bk += "/" + plan.Config.FS
		}
		out.Backends[bk]++
		out.Policies[plan.Config.Policy.Kind]++
		nclauses := 0
		for _, n := range st.Clauses {
			nclauses += n
		}
		if st.Mutations >= 1 && nclauses >= 1 {
			h := fnv.New64a()
			fmt.Fprintf(h, "%d|%s|%s", st.SchedFP, st.StateFP, res.LogHash)
			seen[h.Sum64()] = true
		}
		if len(out.Samples) < 2 && i < int64(*fStride)*2 {
			out.Samples = append(out.Samples, planSample(plan))
		}
		for _, f := range res.Foreign {
			out.Foreign[f.Signature]++
			if _, ok := out.ForeignEx[f.Signature]; !ok {
				out.ForeignEx[f.Signature] = fmt.Sprintf("run index %d seed %d", i, seed)
			}
		}
		// 1 % of the runs are re-executed and must give the same event log
		if i%97 == 0 || os.Getenv("SIMCHECK_RECHECK_ALL") != "" {
			res2 := execPlan(plan)
			out.Rechecked++
			const unrepeatable = "bolt transaction body ran goroutines of its own (run not repeatable)"
			if res.Stats.Probes[unrepeatable]+res2.Stats.Probes[unrepeatable] > 0 {
				// part of such a run executes on a goroutine the scheduler does not own
			} else if res2.LogHash != res.LogHash || (res2.Violation == nil) != (res.Violation == nil) {
				diff := ""
				for li := range res.Log {
					if li >= len(res2.Log) || res.Log[li] != res2.Log[li] {
						diff = fmt.Sprintf(" first difference at log line %d: %q", li, res.Log[li])
						if li < len(res2.Log) {
							diff += fmt.Sprintf(" vs %q", res2.Log[li])
						}
						break
					}
				}
				out.Infra = fmt.Sprintf("non-deterministic run: index %d seed %d: loghash %s vs %s%s", i, seed, res.LogHash, res2.LogHash, diff)
				break
			}
		}
		if v := res.Violation; v != nil {
			if knownSig[v.Signature] {
				out.KnownHits[v.Signature]++
				continue
			}
			already := false
			for _, x := range out.Violations {
				if x.Signature == v.Signature {
					already = true
				}
			}
			if already {
				continue
			}
			min, minRes := plan, res
			if !*fNoShrink {
				var tries int
				budget := 45 * time.Second
				if *fTier == "thorough" {
					budget = 180 * time.Second
				}
				m, mr, t := engine.Shrink(plan, v.Signature, execPlan, budget)
				tries = t
				out.ShrinkTries += tries
				if mr != nil {
					min, minRes = m, mr
				}
			}
			min = min.Clone()
			min.Violation = minRes.Violation.Info(*fProp)
			min.Trace = minRes.Log
			min.LogHash = minRes.LogHash
			if !min.Replay {
				min.Schedule = minRes.Schedule
				min.Replay = true
			}
			h := fnv.New32a()
			h.Write([]byte(v.Signature))
			// (the build this binary belongs to is part of the name: two checks
			// of one property running at once against different trees must not
			// write each other's replay files)
			h.Write([]byte(filepath.Base(filepath.Dir(os.Args[0]))))
			file := filepath.Join(*fReplays, fmt.Sprintf("%s-%d-%08x.json", *fProp, *fSeed, h.Sum32()))
			os.MkdirAll(*fReplays, 0755)
			if err := min.Save(file); err != nil {
				out.Infra = err.Error()
				break
			}
			out.Violations = append(out.Violations, workerViolation{Signature: v.Signature, Clause: v.Clause, File: file, RunSeed: seed, OpsBefore: plan.NOps(), OpsAfter: min.NOps()})
			if len(out.Violations) >= 3 {
				break
			}
		}
	}
	for k := range seen {
		out.Nontrivial = append(out.Nontrivial, k)
	}
	enc := json.NewEncoder(os.Stdout)
	enc.Encode(out)
}

type replayOut struct {
	Infra     string   `json:"infra,omitempty"`
	Violated  bool     `json:"violated"`
	Clause    string   `json:"clause,omitempty"`
	Signature string   `json:"signature,omitempty"`
	Expected  string   `json:"expected,omitempty"`
	Observed  string   `json:"observed,omitempty"`
	LogHash   string   `json:"loghash"`
	Foreign   []string `json:"foreign,omitempty"`
}

func doReplay(path string) int {
	p, err := engine.LoadPlan(path)
	if err != nil {
		fmt.Fprintln(os.Stderr, "simcheck:", err)
		return 2
	}
	if *fProp != "" {
		p.Property = *fProp
	}
	if os.Getenv("SIMCHECK_HANGPROBE") != "" {
		// confirmation of a run that never came back: report whether this
		// execution exceeds the limit too, and whether anything moved meanwhile
		go func() {
			start := time.Now()
			prog, progSince := int64(-1), time.Now()
			for {
				time.Sleep(2 * time.Second)
				if n := simrt.ProgressCount(); n != prog {
					prog, progSince = n, time.Now()
				}
				if time.Since(start) > wallLimit {
					fmt.Printf("HANG stalled=%v\n", time.Since(progSince) > wallLimit*9/10)
					os.Exit(0)
				}
			}
		}()
	}
	res := execPlan(p)
	if os.Getenv("SIMCHECK_TWICE") != "" {
		res2 := execPlan(p)
		for i := range res.Log {
			if i >= len(res2.Log) || res.Log[i] != res2.Log[i] {
				fmt.Printf("DIFF at line %d:\n  1: %s\n", i, res.Log[i])
				if i < len(res2.Log) {
					fmt.Printf("  2: %s\n", res2.Log[i])
				}
				break
			}
		}
		fmt.Println("twice:", res.LogHash, res2.LogHash, len(res.Log), len(res2.Log))
	}
	out := replayOut{Infra: res.Infra, LogHash: res.LogHash}
	for _, f := range res.Foreign {
		out.Foreign = append(out.Foreign, f.Signature)
	}
	if v := res.Violation; v != nil {
		out.Violated, out.Clause, out.Signature, out.Expected, out.Observed = true, v.Clause, v.Signature, v.Expected, v.Observed
	}
	if *fJSON {
		json.NewEncoder(os.Stdout).Encode(out)
	} else {
		if *fVerbose {
			for _, l := range res.Log {
				fmt.Println(l)
			}
		}
		if res.Infra != "" {
			fmt.Println("INFRA:", res.Infra)
			return 2
		}
		for _, f := range res.Foreign {
			fmt.Printf("foreign divergence: %s\n  expected: %s\n  observed: %s\n", f.Signature, f.Expected, f.Observed)
		}
		if out.Violated {
			fmt.Printf("clause: %s\nsignature: %s\nexpected: %s\nobserved: %s\nloghash: %s\n", out.Clause, out.Signature, out.Expected, out.Observed, out.LogHash)
			fmt.Printf("VIOLATION property=%s replay=%s\n", p.Property, path)
			return 1
		}
		fmt.Printf("no violation (loghash %s)\n", out.LogHash)
	}
	if res.Infra != "" {
		return 2
	}
	if out.Violated {
		return 1
	}
	return 0
}

// wallLimit is the wall-clock time a single run may take.  Runs take
// milliseconds to a few seconds; one that takes this long is spinning in code
// without scheduling points (a stuck harness would be reported as wedged or
// deadlocked by the simulator).
const wallLimit = 300 * time.Second

// hangsInFreshProcess re-executes a plan in a fresh process and reports
// whether it exceeds the wall-clock limit there too.
func hangsInFreshProcess(path string) bool {
	cmd := exec.Command(os.Args[0], "-replay", path, "-json", "-prop", *fProp, "-scratch", scratchDir())
	cmd.Env = append(os.Environ(), "GOMAXPROCS=1", "SIMCHECK_HANGPROBE=1")
	var stdout bytes.Buffer
	cmd.Stdout = &stdout
	if err := cmd.Start(); err != nil {
		return false
	}
	done := make(chan struct{})
	go func() { cmd.Wait(); close(done) }()
	select {
	case <-done:
		// the replay process watches itself (see doReplay) and says so
		return strings.Contains(stdout.String(), "HANG stalled=true")
	case <-time.After(wallLimit + 30*time.Second):
		cmd.Process.Kill()
		<-done
		return false
	}
}

func replayInFreshProcess(path string) (*replayOut, error) {
	cmd := exec.Command(os.Args[0], "-replay", path, "-json", "-prop", *fProp, "-scratch", scratchDir())
	var stdout, stderr bytes.Buffer
	cmd.Stdout, cmd.Stderr = &stdout, &stderr
	cmd.Env = append(os.Environ(), "GOMAXPROCS=1")
	runErr := cmd.Run()
	var out replayOut
	if err := json.Unmarshal(stdout.Bytes(), &out); err != nil {
		err = fmt.Errorf("%v (process: %v, %d bytes of output)", err, runErr, stdout.Len())
		se := stderr.String()
		if strings.Contains(se, "fatal error:") || strings.Contains(se, "[signal SIG") {
			// the code under test took the whole process down
			why := "fatal runtime error"
			for _, l := range strings.Split(se, "\n") {
				if strings.HasPrefix(l, "fatal error:") || strings.HasPrefix(l, "[signal ") {
					why = strings.TrimSpace(l)
					if i := strings.Index(why, " addr="); i > 0 {
						why = why[:i] + "]"
					}
					break
				}
			}
			return &replayOut{Violated: true, Clause: "no-panic", Signature: "C09/no-panic: the server process dies: " + why, Expected: "a response", Observed: tail(se, 1500), LogHash: "process-death"}, nil
		}
		return nil, fmt.Errorf("replay of %s: %v %s", path, err, se)
	}
	return &out, nil
}

func main() {
	flag.Parse()
	if *fReplay != "" {
		os.Exit(doReplay(*fReplay))
	}
	if *fProp == "" {
		fmt.Fprintln(os.Stderr, "simcheck: -prop required")
		os.Exit(2)
	}
	if *fHashes > 0 {
		for i := int64(0); i < int64(*fHashes); i++ {
			p := engine.GenPlan(*fProp, mixSeed(*fSeed, i), *fTier, nil)
			res := execPlan(p)
			v := ""
			if res.Violation != nil {
				v = res.Violation.Signature
			}
			fmt.Printf("%d %s %x %s %s\n", i, res.LogHash, res.Stats.SchedFP, res.Infra, v)
		}
		return
	}
	if *fGen >= 0 {
		p := engine.GenPlan(*fProp, mixSeed(*fSeed, *fGen), *fTier, nil)
		b, _ := json.MarshalIndent(p, "", " ")
		fmt.Println(string(b))
		return
	}
	known, err := loadFindings(*fFindings)
	if err != nil {
		fmt.Fprintln(os.Stderr, "simcheck:", err)
		os.Exit(2)
	}
	if *fSeconds == 0 {
		*fSeconds = 45
		if *fTier == "thorough" {
			*fSeconds = 1200
		}
	}
	if *fWorker {
		runWorker(known)
		return
	}
	code := parent(known)
	if *fScratch != "" && strings.Contains(*fScratch, "simcheck-") {
		os.RemoveAll(*fScratch)
	}
	os.Exit(code)
}

func parent(known []knownFinding) int {
	start := time.Now()
	// every worker and replay of this check works below one scratch directory
	// that is removed when the check ends, whatever became of the workers
	if root, err := os.MkdirTemp(scratchDir(), "simcheck-"); err == nil {
		*fScratch = root
		defer os.RemoveAll(root)
	}
	prop := *fProp
	workers := *fWorkers
	if workers <= 0 {
		workers = runtime.NumCPU()
	}
	if *fReplays == "" {
		*fReplays = "replays"
	}
	exitCode := 0
	var violLines []string

	// 1. regression plans of defects fixed earlier: must not fail any more
	regressRun, regressFail := 0, 0
	if *fRegress != "" {
		files, _ := filepath.Glob(filepath.Join(*fRegress, prop, "*.json"))
		sort.Strings(files)
		for _, f := range files {
			out, err := replayInFreshProcess(f)
			if err != nil || out.Infra != "" {
				fmt.Fprintf(os.Stderr, "simcheck: regress %s: %v %s\n", f, err, out.Infra)
				return 2
			}
			regressRun++
			if out.Violated {
				isKnown := false
				for _, k := range known {
					if k.Kind == "known" && k.Property == prop && k.Signature == out.Signature {
						isKnown = true
					}
				}
				if isKnown {
					continue
				}
				regressFail++
				fmt.Printf("regression plan fails again: %s\n  %s\n  expected: %s\n  observed: %s\n", f, out.Signature, trunc(out.Expected, 300), trunc(out.Observed, 300))
				violLines = append(violLines, fmt.Sprintf("VIOLATION property=%s replay=%s", prop, f))
				exitCode = 1
			}
		}
	}

	// 2. known findings: print, and confirm each still fails
	knownConfirmed, knownStale := 0, 0
	for _, k := range known {
		if k.Kind != "known" || k.Property != prop {
			continue
		}
		fmt.Printf("KNOWN-FINDING: property=%s %s\n", prop, k.Text)
		if k.Replay != "" {
			out, err := replayInFreshProcess(k.Replay)
			switch {
			case err != nil || out.Infra != "":
				fmt.Fprintf(os.Stderr, "simcheck: known finding replay %s: %v\n", k.Replay, err)
				return 2
			case out.Violated && out.Signature == k.Signature:
				knownConfirmed++
			case out.Violated:
				// a different violation on the stored replay is not covered by the entry
				fmt.Printf("stored replay of a known finding now fails differently: %s\n  %s\n", k.Replay, out.Signature)
				violLines = append(violLines, fmt.Sprintf("VIOLATION property=%s replay=%s", prop, k.Replay))
				exitCode = 1
			default:
				knownStale++
				fmt.Fprintf(os.Stderr, "simcheck: note: known finding no longer reproduces (stale entry): %s\n", k.Signature)
			}
		}
	}

	// 3. search
	type wres struct {
		out *workerOut
		err error
		raw string
	}
	deadline := time.Now().Add(time.Duration(*fSeconds) * time.Second)
	ch := make(chan wres, workers)
	var fatalMu = make(chan struct{}, 1)
	fatalMu <- struct{}{}
	var fatals []string         // replay files of runs that killed the worker process
	var hangs []int64           // indices of runs that exceeded the wall-clock limit
	stalled := map[int64]bool{} // ... without anything moving
	for w := 0; w < workers; w++ {
		go func(w int) {
			index := w
			merged := &workerOut{}
			first := true
			for attempt := 0; attempt < 300; attempt++ {
				secs := int(time.Until(deadline).Seconds())
				if !first && (secs < 2 || *fRuns > 0) {
					break
				}
				if secs < 1 {
					secs = 1
				}
				args := []string{"-worker", "-prop", prop, "-tier", *fTier, "-seed", strconv.FormatInt(*fSeed, 10), "-index", strconv.Itoa(index), "-stride", strconv.Itoa(workers),
					"-seconds", strconv.Itoa(secs), "-runs", strconv.Itoa(*fRuns), "-findings", *fFindings, "-replays", *fReplays, "-scratch", scratchDir()}
				if *fNoShrink {
					args = append(args, "-noshrink")
				}
				cmd := exec.Command(os.Args[0], args...)
				cmd.Env = append(os.Environ(), "GOMAXPROCS=1")
				var stdout, stderr bytes.Buffer
				cmd.Stdout, cmd.Stderr = &stdout, &stderr
				err := cmd.Run()
				var out workerOut
				if jerr := json.Unmarshal(stdout.Bytes(), &out); jerr == nil {
					mergeOut(merged, &out)
					if out.Hung > 0 {
						// the run never came back: remember it, go on behind it
						<-fatalMu
						hangs = append(hangs, out.Hung-1)
						if out.HungStalled {
							stalled[out.Hung-1] = true
						}
						fatalMu <- struct{}{}
						index = int(out.Hung-1) + workers
						first = false
						continue
					}
					ch <- wres{merged, nil, ""}
					return
				}
				// the worker process died: was it the code under test taking the process down?
				se := stderr.String()
				idx := int64(-1)
				for _, l := range strings.Split(se, "\n") {
					if strings.HasPrefix(l, "RUN ") {
						idx, _ = strconv.ParseInt(strings.TrimSpace(l[4:]), 10, 64)
					}
				}
				if idx < 0 || !(strings.Contains(se, "fatal error:") || strings.Contains(se, "[signal SIG")) {
					ch <- wres{nil, fmt.Errorf("worker %d: %v", w, err), tail(se, 3000)}
					return
				}
				why := "fatal runtime error"
				for _, l := range strings.Split(se, "\n") {
					if strings.HasPrefix(l, "fatal error:") || strings.HasPrefix(l, "[signal ") {
						why = strings.TrimSpace(l)
						if i := strings.Index(why, " addr="); i > 0 {
							why = why[:i] + "]"
						}
						break
					}
				}
				plan := engine.GenPlan(prop, mixSeed(*fSeed, idx), *fTier, guardsFor(known, prop, idx))
				plan.Violation = &engine.ViolationInfo{Property: "C09", Clause: "no-panic", Signature: "C09/no-panic: the server process dies: " + why, Observed: tail(se, 4000)}
				os.MkdirAll(*fReplays, 0755)
				file := filepath.Join(*fReplays, fmt.Sprintf("%s-%d-fatal-%d.json", prop, *fSeed, idx))
				plan.Save(file)
				<-fatalMu
				fatals = append(fatals, file+"\x00"+plan.Violation.Signature)
				fatalMu <- struct{}{}
				index = int(idx) + workers
				first = false
			}
			ch <- wres{merged, nil, ""}
		}(w)
	}
	tot := &workerOut{Clauses: map[string]int{}, Faults: map[string]int{}, Probes: map[string]int{}, Routes: map[string]int{}, Porcupine: map[string]int{},
		KnownHits: map[string]int{}, Foreign: map[string]int{}, ForeignEx: map[string]string{}, Backends: map[string]int{}, Policies: map[string]int{}, Configs: map[string]int{}}
	distinct := map[uint64]bool{}
	infra := 0
	for w := 0; w < workers; w++ {
		r := <-ch
		// trouble of one worker does not silence what the others found: a
		// confirmed violation is reported (exit 1); without one the check has
		// no verdict (exit 2)
		if r.err != nil {
			fmt.Fprintf(os.Stderr, "simcheck: %v\n%s\n", r.err, r.raw)
			infra++
			continue
		}
		o := r.out
		if o.Infra != "" {
			fmt.Fprintf(os.Stderr, "simcheck: infrastructure problem: %s\n", o.Infra)
			infra++
			continue
		}
		tot.Runs += o.Runs
		addMap(tot.Clauses, o.Clauses)
		addMap(tot.Faults, o.Faults)
		addMap(tot.Probes, o.Probes)
		addMap(tot.Routes, o.Routes)
		addMap(tot.Porcupine, o.Porcupine)
		addMap(tot.KnownHits, o.KnownHits)
		addMap(tot.Foreign, o.Foreign)
		addMap(tot.Backends, o.Backends)
		addMap(tot.Policies, o.Policies)
		for k, v := range o.ForeignEx {
			if _, ok := tot.ForeignEx[k]; !ok {
				tot.ForeignEx[k] = v
			}
		}
		tot.Steps += o.Steps
		tot.HandOffs += o.HandOffs
		tot.SimSeconds += o.SimSeconds
		tot.Ops += o.Ops
		tot.CrashPoints += o.CrashPoints
		tot.Rechecked += o.Rechecked
		tot.ShrinkTries += o.ShrinkTries
		tot.Violations = append(tot.Violations, o.Violations...)
		tot.Samples = append(tot.Samples, o.Samples...)
		for _, k := range o.Nontrivial {
			distinct[k] = true
		}
	}
	sort.Strings(fatals)
	for _, f := range fatals {
		parts := strings.SplitN(f, "\x00", 2)
		if prop == "C09" {
			fmt.Printf("violation: %s\n  the worker process was killed by the code under test; replay file regenerates the run\n", parts[1])
			violLines = append(violLines, fmt.Sprintf("VIOLATION property=%s replay=%s", prop, parts[0]))
			exitCode = 1
		} else {
			fmt.Fprintf(os.Stderr, "simcheck: foreign divergence (not this property's clause; its own check must report it): %s (replay %s)\n", parts[1], parts[0])
		}
	}
	// 4. new violations: confirm by two fresh replays, then report
	bySig := map[string]workerViolation{}
	for _, v := range tot.Violations {
		if old, ok := bySig[v.Signature]; !ok || v.OpsAfter < old.OpsAfter {
			bySig[v.Signature] = v
		}
	}
	var sigs []string
	for s := range bySig {
		sigs = append(sigs, s)
	}
	sort.Strings(sigs)
	unconfirmed := 0
	for _, s := range sigs {
		v := bySig[s]
		a, err1 := replayInFreshProcess(v.File)
		b, err2 := replayInFreshProcess(v.File)
		if err1 != nil || err2 != nil || a.Infra != "" || b.Infra != "" {
			fmt.Fprintf(os.Stderr, "simcheck: replay of a violation failed to run: %v %v\n", err1, err2)
			unconfirmed++
			continue
		}
		if !a.Violated || !b.Violated || a.Signature != s || b.Signature != s || a.LogHash != b.LogHash {
			// never reported as a violation; without any confirmed violation the check has no verdict (exit 2)
			fmt.Fprintf(os.Stderr, "simcheck: non-reproducible violation (not reported as a violation): %s\n  replay 1: %+v\n  replay 2: %+v\n", v.File, a, b)
			unconfirmed++
			continue
		}
		fmt.Printf("violation: %s\n  minimised from %d to %d ops; run seed %d\n  expected: %s\n  observed: %s\n", s, v.OpsBefore, v.OpsAfter, v.RunSeed, trunc(a.Expected, 400), trunc(a.Observed, 600))
		violLines = append(violLines, fmt.Sprintf("VIOLATION property=%s replay=%s", prop, v.File))
		exitCode = 1
	}
	// runs that never came back: a request that keeps the server spinning is
	// C09's business (confirmed by a second hang in a fresh process); for the
	// other properties, and unconfirmed, it leaves the check without a verdict
	sort.Slice(hangs, func(i, j int) bool { return hangs[i] < hangs[j] })
	for n, idx := range hangs {
		plan := engine.GenPlan(prop, mixSeed(*fSeed, idx), *fTier, guardsFor(known, prop, idx))
		sig := "C09/progress: a request keeps the server busy without an answer for more than " + wallLimit.String() + " of wall-clock time"
		plan.Violation = &engine.ViolationInfo{Property: "C09", Clause: "progress", Signature: sig, Expected: "an answer", Observed: "no answer; the run was abandoned"}
		os.MkdirAll(*fReplays, 0755)
		file := filepath.Join(*fReplays, fmt.Sprintf("%s-%d-hang-%d.json", prop, *fSeed, idx))
		plan.Save(file)
		switch {
		case !stalled[idx]:
			// slow, not stuck: bytes kept moving, locks were taken, files touched
			fmt.Fprintf(os.Stderr, "simcheck: run index %d exceeded the wall-clock limit while still making progress (plan %s): no verdict\n", idx, file)
			infra++
		case prop != "C09":
			fmt.Fprintf(os.Stderr, "simcheck: run index %d exceeded the wall-clock limit (plan %s); a hang is C09's clause\n", idx, file)
			infra++
		case n > 0 || exitCode != 0:
			fmt.Fprintf(os.Stderr, "simcheck: run index %d exceeded the wall-clock limit too (plan %s)\n", idx, file)
		case hangsInFreshProcess(file):
			fmt.Printf("violation: %s\n  confirmed by a second execution of the plan in a fresh process\n", sig)
			violLines = append(violLines, fmt.Sprintf("VIOLATION property=%s replay=%s", prop, file))
			exitCode = 1
		default:
			fmt.Fprintf(os.Stderr, "simcheck: run index %d exceeded the wall-clock limit once and completed when repeated (plan %s)\n", idx, file)
			infra++
		}
	}
	wall := time.Since(start).Seconds()
	if len(tot.Foreign) > 0 {
		var fs []string
		for s := range tot.Foreign {
			fs = append(fs, s)
		}
		sort.Strings(fs)
		for _, s := range fs {
			fmt.Fprintf(os.Stderr, "simcheck: foreign divergence (not this property's clause; its own check must report it): %s x%d (%s)\n", s, tot.Foreign[s], tot.ForeignEx[s])
		}
	}
	// probes stuck at zero are worth a warning in the thorough tier
	writeEvidence(prop, tot, len(distinct), wall, len(violLines), regressRun, knownConfirmed, knownStale, workers)
	fmt.Printf("%s %s: runs=%d distinct=%d ops=%d steps=%d handoffs=%d crashpoints=%d wall=%.1fs violations=%d known-hits=%d foreign=%d\n",
		prop, *fTier, tot.Runs, len(distinct), tot.Ops, tot.Steps, tot.HandOffs, tot.CrashPoints, wall, len(violLines), sum(tot.KnownHits), sum(tot.Foreign))
	for _, l := range violLines {
		fmt.Println(l)
	}
	if (unconfirmed > 0 || infra > 0) && exitCode == 0 {
		return 2
	}
	return exitCode
}

func tail(s string, n int) string {
	if len(s) > n {
		return s[len(s)-n:]
	}
	return s
}

func mergeOut(dst, o *workerOut) {
	if dst.Clauses == nil {
		*dst = *o
		return
	}
	dst.Runs += o.Runs
	addMap(dst.Clauses, o.Clauses)
	addMap(dst.Faults, o.Faults)
	addMap(dst.Probes, o.Probes)
	addMap(dst.Routes, o.Routes)
	addMap(dst.Porcupine, o.Porcupine)
	addMap(dst.KnownHits, o.KnownHits)
	addMap(dst.Foreign, o.Foreign)
	addMap(dst.Backends, o.Backends)
	addMap(dst.Policies, o.Policies)
	dst.Nontrivial = append(dst.Nontrivial, o.Nontrivial...)
	dst.Violations = append(dst.Violations, o.Violations...)
	dst.Steps += o.Steps
	dst.HandOffs += o.HandOffs
	dst.SimSeconds += o.SimSeconds
	dst.Ops += o.Ops
	dst.CrashPoints += o.CrashPoints
}

func sum(m map[string]int) int {
	n := 0
	for _, v := range m {
		n += v
	}
	return n
}

func trunc(s string, n int) string {
	if len(s) > n {
		return s[:n] + "..."
	}
	return s
}

var levels = map[string]string{"C08": "fault_enumeration", "C12": "fault_enumeration", "C15": "fault_enumeration"}

func writeEvidence(prop string, t *workerOut, distinct int, wall float64, nviol, regress, knownOK, knownStale, workers int) {
	if *fEvidence == "" {
		return
	}
	level := levels[prop]
	if level == "" {
		level = "exploration"
	}
	samples := []interface{}{}
	for i, s := range t.Samples {
		if i >= 4 {
			break
		}
		samples = append(samples, s)
	}
	if len(samples) == 0 {
		samples = append(samples, "no run completed")
	}
	perHour := 0.0
	if wall > 0 {
		perHour = float64(t.Runs) / wall * 3600
	}
	cov := map[string]interface{}{
		"evaluations":         t.Runs,
		"distinct_nontrivial": distinct,
		"rule": "one evaluation = one simulated run: a plan (configuration, per-client operations with attached faults, schedule) generated from (VERIF_SEED, run index) and executed start to finish against the instrumented working tree of /repo; " +
			"distinct_nontrivial counts distinct (schedule fingerprint, final model-state fingerprint, event-log hash) triples among runs that executed >= 1 mutating operation and >= 1 checked clause",
		"samples":                         samples,
		"exhaustive":                      false,
		"runs_per_hour":                   perHour,
		"seeds_per_hour":                  perHour,
		"workers":                         workers,
		"operations":                      t.Ops,
		"scheduling_points":               t.Steps,
		"baton_handoffs":                  t.HandOffs,
		"simulated_seconds":               t.SimSeconds,
		"faults_fired_by_kind":            t.Faults,
		"crash_points_examined":           t.CrashPoints,
		"probes":                          t.Probes,
		"clause_evaluations":              t.Clauses,
		"routes":                          t.Routes,
		"porcupine":                       t.Porcupine,
		"backends":                        t.Backends,
		"schedule_policies":               t.Policies,
		"foreign_divergences":             t.Foreign,
		"known_finding_hits":              t.KnownHits,
		"known_findings_confirmed":        knownOK,
		"known_findings_stale":            knownStale,
		"regression_plans_replayed":       regress,
		"runs_reexecuted_for_determinism": t.Rechecked,
		"real_vs_stub": map[string]string{
			"gofakes3 root package, s3mem, s3bolt, s3afero, goskipiter":                                                                    "real (instrumented copy of /repo's working tree)",
			"goskiplist, afero BasePathFs/MemMapFs/OsFs, mgo/bson, encoding/xml, net/http request parser and body framing, mime/multipart": "real, uninstrumented",
			"bbolt":                            "real on a real file (tmpfs) + 2 hook lines; transactions are atomic scheduling steps",
			"sockets, net/http server loop":    "stub (simnet)",
			"filesystem under s3afero":         "stub (simfs) for fault/crash/interleaving runs; real MemMapFs / real directory otherwise",
			"sync.Mutex/RWMutex, Go scheduler": "stub (simrt baton scheduler)",
			"wall clock":                       "stub (simclock)",
		},
	}
	ev := map[string]interface{}{
		"property_id": prop,
		"tier":        *fTier,
		"seed":        *fSeed,
		"level":       level,
		"coverage":    cov,
		"assumptions": []string{
			"sampling, not proof: a clean batch is evidence only",
			"dependency code (goskiplist, afero, bson, bbolt, net/http, encoding/xml) is atomic between two gofakes3 statements",
			"crash model is process kill (completed I/O calls persist), not power loss",
			"simfs models POSIX as seen through afero.OsFs for the calls gofakes3 makes",
		},
		"wall_s":     wall,
		"violations": nviol,
	}
	b, _ := json.MarshalIndent(ev, "", " ")
	os.MkdirAll(filepath.Dir(*fEvidence), 0755)
	os.WriteFile(*fEvidence, b, 0644)
}
