// Package model is the executable reference model of the S3 subset the
// properties talk about.  It imports nothing from gofakes3 and encodes what
// the property statements say, not what the code does.
package model

import (
	"crypto/md5"
	"encoding/hex"
	"fmt"
	"sort"
	"strings"
)

// Entity is one stored body with the metadata sent along with it.
type Entity struct {
	Body []byte
	MD5  string            // lower-case hex
	Meta map[string]string // canonical header -> value, exactly as sent
	Tag  string            // where it came from (for messages)
	// AltETag is an alternative ETag a read may report (the multipart "-N"
	// form for objects created by a completed multipart upload).
	AltETag string
}

// NewEntity computes the digest of body.
func NewEntity(body []byte, meta map[string]string, tag string) *Entity {
	s := md5.Sum(body)
	return &Entity{Body: body, MD5: hex.EncodeToString(s[:]), Meta: meta, Tag: tag}
}

// Version is one entry of a key's version stack.
type Version struct {
	ID     string // server-assigned id once learned; "" when unknown / null
	Marker bool
	Ent    *Entity
	Era    string // none | enabled | suspended
	Seq    int    // creation order within the run
}

// Key is the version stack of one key, oldest first; the last entry is what
// an unqualified read resolves to.
type Key struct {
	Vers  []*Version
	Indet bool // content unknown (a mutation failed after an injected fault)
}

// Current is the newest remaining entry (nil when none).
func (k *Key) Current() *Version {
	if k == nil || len(k.Vers) == 0 {
		return nil
	}
	return k.Vers[len(k.Vers)-1]
}

// Live is the entity an unqualified read serves, nil when NoSuchKey.
func (k *Key) Live() *Entity {
	c := k.Current()
	if c == nil || c.Marker {
		return nil
	}
	return c.Ent
}

// Bucket is one bucket.
type Bucket struct {
	Name       string
	Keys       map[string]*Key
	Versioning string // "" (never) | Enabled | Suspended
	HadUpload  bool
	// Dirty: an operation on this bucket was hit by an injected disk fault;
	// whether leftovers keep the bucket from being "empty" is indeterminate.
	Dirty bool
}

// Upload is a multipart upload.
type Upload struct {
	ID     string
	Bucket string
	Key    string
	Meta   map[string]string
	Parts  map[int]*Entity
	Gone   bool // completed or aborted
	Seq    int
}

// Store is the whole model state.
type Store struct {
	Buckets map[string]*Bucket
	Uploads []*Upload
	seq     int
}

func New() *Store { return &Store{Buckets: map[string]*Bucket{}} }

// Clone deep-copies the state (entities are immutable and shared).
func (s *Store) Clone() *Store {
	c := &Store{Buckets: map[string]*Bucket{}, seq: s.seq}
	for n, b := range s.Buckets {
		nb := &Bucket{Name: b.Name, Keys: map[string]*Key{}, Versioning: b.Versioning, HadUpload: b.HadUpload, Dirty: b.Dirty}
		for kn, k := range b.Keys {
			nk := &Key{Indet: k.Indet}
			for _, v := range k.Vers {
				cv := *v
				nk.Vers = append(nk.Vers, &cv)
			}
			nb.Keys[kn] = nk
		}
		c.Buckets[n] = nb
	}
	for _, u := range s.Uploads {
		cu := *u
		cu.Parts = map[int]*Entity{}
		for n, p := range u.Parts {
			cu.Parts[n] = p
		}
		c.Uploads = append(c.Uploads, &cu)
	}
	return c
}

func (s *Store) CreateBucket(name string) *Bucket {
	b := &Bucket{Name: name, Keys: map[string]*Key{}}
	s.Buckets[name] = b
	return b
}

func (b *Bucket) key(name string, create bool) *Key {
	k := b.Keys[name]
	if k == nil && create {
		k = &Key{}
		b.Keys[name] = k
	}
	return k
}

// Key returns the key's stack or nil.
func (b *Bucket) Key(name string) *Key { return b.Keys[name] }

func (b *Bucket) gc(name string) {
	if k := b.Keys[name]; k != nil && len(k.Vers) == 0 && !k.Indet {
		delete(b.Keys, name)
	}
}

// Put stores ent under name following the bucket's versioning state and
// returns the new entry.
func (s *Store) Put(b *Bucket, name string, ent *Entity) *Version {
	s.seq++
	k := b.key(name, true)
	k.Indet = false
	v := &Version{Ent: ent, Seq: s.seq}
	switch b.Versioning {
	case "Enabled":
		v.Era = "enabled"
	case "Suspended":
		v.Era = "suspended"
		k.dropNull()
	default:
		v.Era = "none"
		k.Vers = nil
	}
	k.Vers = append(k.Vers, v)
	return v
}

func (k *Key) dropNull() {
	out := k.Vers[:0]
	for _, v := range k.Vers {
		if v.Era == "enabled" {
			out = append(out, v)
		}
	}
	k.Vers = out
}

// Delete performs an unqualified delete.  It returns the marker entry when
// one was added.
func (s *Store) Delete(b *Bucket, name string) *Version {
	k := b.key(name, false)
	if k == nil {
		return nil
	}
	k.Indet = false
	switch b.Versioning {
	case "Enabled":
		if len(k.Vers) == 0 {
			b.gc(name)
			return nil
		}
		s.seq++
		v := &Version{Marker: true, Era: "enabled", Seq: s.seq}
		k.Vers = append(k.Vers, v)
		return v
	case "Suspended":
		k.dropNull()
		if len(k.Vers) == 0 {
			b.gc(name)
			return nil
		}
		s.seq++
		v := &Version{Marker: true, Era: "suspended", Seq: s.seq}
		k.Vers = append(k.Vers, v)
		return v
	default:
		k.Vers = nil
		b.gc(name)
		return nil
	}
}

// DeleteVersion removes exactly the entry with the given id.
func (s *Store) DeleteVersion(b *Bucket, name, id string) *Version {
	k := b.key(name, false)
	if k == nil || id == "" {
		return nil
	}
	for i, v := range k.Vers {
		if v.ID == id {
			k.Vers = append(k.Vers[:i:i], k.Vers[i+1:]...)
			b.gc(name)
			return v
		}
	}
	return nil
}

// Find returns the entry with the given id.
func (k *Key) Find(id string) *Version {
	if k == nil || id == "" {
		return nil
	}
	for _, v := range k.Vers {
		if v.ID == id {
			return v
		}
	}
	return nil
}

// Empty reports whether the bucket holds nothing at all (no entries of any
// kind), which is when DeleteBucket must succeed.
func (b *Bucket) Empty() bool {
	for _, k := range b.Keys {
		if len(k.Vers) > 0 || k.Indet {
			return false
		}
	}
	return true
}

// ListEntry is one Contents element.
type ListEntry struct {
	Key  string
	Size int64
	ETag string // quoted
}

// LiveKeys returns the keys an unqualified read finds, ascending by bytes.
func (b *Bucket) LiveKeys() []string {
	var out []string
	for n, k := range b.Keys {
		if k.Live() != nil {
			out = append(out, n)
		}
	}
	sort.Strings(out)
	return out
}

// Group is the independent grouping oracle: given the candidate keys (any
// order) it returns Contents keys and CommonPrefixes, each ascending by bytes.
func Group(keys []string, prefix, delim string) (contents []string, prefixes []string) {
	seen := map[string]bool{}
	for _, k := range keys {
		if !strings.HasPrefix(k, prefix) {
			continue
		}
		rest := k[len(prefix):]
		if delim != "" {
			if i := strings.Index(rest, delim); i >= 0 {
				p := prefix + rest[:i+len(delim)]
				if !seen[p] {
					seen[p] = true
					prefixes = append(prefixes, p)
				}
				continue
			}
		}
		contents = append(contents, k)
	}
	sort.Strings(contents)
	sort.Strings(prefixes)
	return
}

// List is the expected ListObjects result for the bucket.
func (b *Bucket) List(prefix, delim string) (contents []ListEntry, prefixes []string) {
	ck, prefixes := Group(b.LiveKeys(), prefix, delim)
	for _, k := range ck {
		e := b.Keys[k].Live()
		contents = append(contents, ListEntry{Key: k, Size: int64(len(e.Body)), ETag: `"` + e.MD5 + `"`})
	}
	return
}

// MultipartETag is the documented ETag of a completed multipart upload.
func MultipartETag(parts []*Entity) string {
	h := md5.New()
	for _, p := range parts {
		raw, _ := hex.DecodeString(p.MD5)
		h.Write(raw)
	}
	return fmt.Sprintf(`"%s-%d"`, hex.EncodeToString(h.Sum(nil)), len(parts))
}

// NewUpload registers a multipart upload.
func (s *Store) NewUpload(b *Bucket, key, id string, meta map[string]string) *Upload {
	s.seq++
	u := &Upload{ID: id, Bucket: b.Name, Key: key, Meta: meta, Parts: map[int]*Entity{}, Seq: s.seq}
	s.Uploads = append(s.Uploads, u)
	b.HadUpload = true
	return u
}

// PendingUploads lists the not-yet-finished uploads of a bucket ordered by
// key then initiation.
func (s *Store) PendingUploads(bucket string) []*Upload {
	var out []*Upload
	for _, u := range s.Uploads {
		if !u.Gone && u.Bucket == bucket {
			out = append(out, u)
		}
	}
	sort.SliceStable(out, func(i, j int) bool {
		if out[i].Key != out[j].Key {
			return out[i].Key < out[j].Key
		}
		return out[i].Seq < out[j].Seq
	})
	return out
}

// PartNumbers returns the held part numbers ascending.
func (u *Upload) PartNumbers() []int {
	var out []int
	for n := range u.Parts {
		out = append(out, n)
	}
	sort.Ints(out)
	return out
}

// Fingerprint is a short deterministic digest of the state (for coverage).
func (s *Store) Fingerprint() string {
	h := md5.New()
	var bn []string
	for n := range s.Buckets {
		bn = append(bn, n)
	}
	sort.Strings(bn)
	for _, n := range bn {
		b := s.Buckets[n]
		fmt.Fprintf(h, "B%s|%s|", n, b.Versioning)
		var kn []string
		for k := range b.Keys {
			kn = append(kn, k)
		}
		sort.Strings(kn)
		for _, k := range kn {
			fmt.Fprintf(h, "K%s:", k)
			for _, v := range b.Keys[k].Vers {
				if v.Marker {
					fmt.Fprintf(h, "m%s,", v.Era)
				} else {
					fmt.Fprintf(h, "v%s%d,", v.Era, len(v.Ent.Body))
				}
			}
		}
	}
	for _, u := range s.Uploads {
		if !u.Gone {
			fmt.Fprintf(h, "U%s/%s:%v|", u.Bucket, u.Key, u.PartNumbers())
		}
	}
	return hex.EncodeToString(h.Sum(nil))[:16]
}
