package engine

import (
	"bytes"
	"encoding/xml"
	"fmt"
	"net/url"
	"sort"
	"strconv"
	"strings"

	"verif/sim/model"
	"verif/sim/simnet"
)

const unknownUploadID = "99999999"

// upload resolves an upload reference; nil means "an id the server never issued".
func (r *Run) upload(ref int) *model.Upload {
	if ref < 0 || len(r.uploads) == 0 {
		return nil
	}
	return r.uploads[ref%len(r.uploads)]
}

func (r *Run) uploadAddr(op *Op) (u *model.Upload, bucket, key, id string, mismatch bool) {
	u = r.upload(op.Up)
	if u == nil {
		b := op.B
		if b == "" && len(r.Plan.Config.Buckets) > 0 {
			b = r.Plan.Config.Buckets[0]
		}
		k := op.Key
		if k == "" {
			k = "no-such-upload-key"
		}
		return nil, b, k, unknownUploadID, false
	}
	bucket, key, id = u.Bucket, u.Key, u.ID
	if op.Key != "" && op.Key != u.Key {
		key, mismatch = op.Key, true
	}
	if op.B != "" && op.B != u.Bucket {
		bucket, mismatch = op.B, true
	}
	return
}

func (r *Run) opMpuInit(op *Op) {
	req := &simnet.Request{Method: "POST", Target: target(op.B, op.Key, url.Values{"uploads": {""}}), Headers: sortedMeta(op.Meta)}
	resp := r.send(req, op.Faults, r.frag(op))
	r.noPanic(resp, "initiate multipart upload")
	b := r.bucket(op.B)
	if b == nil {
		r.expectNoBucket(resp, "initiate multipart upload")
		return
	}
	var x xInitResult
	if resp.Status != 200 || xml.Unmarshal(resp.Body, &x) != nil || x.UploadID == "" {
		r.fail("mpu.part", "initiating a multipart upload fails", "200 with an UploadId", resp.String())
	}
	for _, u := range r.uploads {
		if u.ID == x.UploadID {
			r.fail("mpu.part", "an upload id is issued twice", "fresh id", x.UploadID)
		}
	}
	u := r.M.NewUpload(b, op.Key, x.UploadID, op.Meta)
	r.uploads = append(r.uploads, u)
	r.stats.Mutations++
	r.logf("  -> upload #%d id=%s", len(r.uploads)-1, x.UploadID)
}

func (r *Run) expectNoUpload(resp *Resp, cl, what string) {
	if resp.Status == 404 && (resp.Code == "NoSuchUpload" || resp.Code == "NoSuchBucket") {
		r.ok(cl)
		return
	}
	r.fail(cl, what+" for an upload id that does not exist (never issued, completed, aborted or addressed under another key) does not answer NoSuchUpload", "404 NoSuchUpload", resp.String())
}

func (r *Run) opMpuPart(op *Op) {
	u, bucket, key, id, mismatch := r.uploadAddr(op)
	ent := r.entityFor(op)
	q := url.Values{"uploadId": {id}, "partNumber": {strconv.Itoa(op.Part)}}
	var before []string
	if mismatch {
		before = r.observeUploads(u.Bucket)
	}
	resp := r.send(r.putRequest(op, target(bucket, key, q), ent.Body), op.Faults, r.frag(op))
	r.noPanic(resp, "upload part")
	r.logf("  -> %s", resp.String())
	if op.Part < 1 || op.Part > 10000 {
		if resp.Status < 400 || resp.Status >= 500 {
			r.fail("mpu.part", "a part number outside 1..10000 is not refused with a client error", "4xx", resp.String())
		}
		return
	}
	if u == nil || u.Gone || mismatch {
		if mismatch {
			if after := r.observeUploads(u.Bucket); strings.Join(before, "\n") != strings.Join(after, "\n") {
				r.fail("frame.others", "a part uploaded with an upload id that belongs to another key or bucket changes that upload "+r.bctx(), fmt.Sprint(before), fmt.Sprint(after))
			}
			r.ok("frame.others")
		}
		r.expectNoUpload(resp, "mpu.part", "upload-part")
		return
	}
	if !resp.OK() {
		r.fail("mpu.part", "an honest part upload is refused", "200", resp.String()+" "+resp.Msg)
	}
	if et := resp.Header.Get("ETag"); strings.Trim(et, `"`) != ent.MD5 {
		r.fail("mpu.part", "the ETag of an uploaded part is not the MD5 of its bytes", ent.MD5, et)
	}
	if _, re := u.Parts[op.Part]; re {
		r.probe("part number re-uploaded")
	}
	u.Parts[op.Part] = ent
	r.stats.Mutations++
	r.ok("mpu.part")
}

func (r *Run) completeBody(u *model.Upload, parts []PartRef) []byte {
	var b bytes.Buffer
	b.WriteString("<CompleteMultipartUpload>")
	for _, p := range parts {
		etag := "00000000000000000000000000000000"
		if u != nil {
			if e := u.Parts[p.N]; e != nil {
				etag = e.MD5
			}
		}
		switch p.ETag {
		case "stale":
			etag = "0123456789abcdef0123456789abcdef"
		case "garbage":
			etag = "not-an-etag"
		}
		fmt.Fprintf(&b, "<Part><PartNumber>%d</PartNumber><ETag>&quot;%s&quot;</ETag></Part>", p.N, etag)
	}
	b.WriteString("</CompleteMultipartUpload>")
	return b.Bytes()
}

// completeVerdict says whether the model accepts the part list.
func completeVerdict(u *model.Upload, parts []PartRef) (ok bool, why string) {
	last := 0
	for _, p := range parts {
		if p.N <= last {
			return false, "out-of-order"
		}
		last = p.N
	}
	for _, p := range parts {
		if u.Parts[p.N] == nil {
			return false, "unknown-part"
		}
		if p.ETag != "" {
			return false, "wrong-etag"
		}
	}
	return true, ""
}

func (r *Run) opMpuComplete(op *Op) {
	u, bucket, key, id, mismatch := r.uploadAddr(op)
	if len(op.Parts) == 0 {
		return // an empty part list is not judged
	}
	body := r.completeBody(u, op.Parts)
	keyBefore := r.observeKey(bucket, key)
	var upBefore []string
	if u != nil {
		upBefore = r.observeUploads(u.Bucket)
	}
	req := &simnet.Request{Method: "POST", Target: target(bucket, key, url.Values{"uploadId": {id}}),
		Headers: [][2]string{{"Content-Length", strconv.Itoa(len(body))}}, Body: body, FragSeed: r.Plan.Seed + int64(r.curOp)}
	resp := r.send(req, op.Faults, r.frag(op))
	r.noPanic(resp, "complete multipart upload")
	r.logf("  -> %s", resp.String())
	unchanged := func(why string) {
		if after := r.observeKey(bucket, key); *after != *keyBefore {
			r.fail("mpu.reject", fmt.Sprintf("a rejected complete (%s) changes the stored object %s", why, r.bctx()), keyBefore.String(), after.String())
		}
		if u != nil {
			if after := r.observeUploads(u.Bucket); strings.Join(after, "\n") != strings.Join(upBefore, "\n") {
				r.fail("mpu.reject", fmt.Sprintf("a rejected complete (%s) changes the pending upload", why), fmt.Sprint(upBefore), fmt.Sprint(after))
			}
		}
		r.ok("mpu.reject")
	}
	if u == nil || u.Gone || mismatch {
		if mismatch {
			// role in a C10 run: the upload of one key is not usable through another key
			after := r.observeKey(bucket, key)
			upAfter := r.observeUploads(u.Bucket)
			if *after != *keyBefore || strings.Join(upAfter, "\n") != strings.Join(upBefore, "\n") {
				r.fail("frame.others", "a complete request with an upload id that belongs to another key or bucket takes effect "+r.bctx(), keyBefore.String()+" "+fmt.Sprint(upBefore), after.String()+" "+fmt.Sprint(upAfter))
			}
			r.ok("frame.others")
		}
		r.expectNoUpload(resp, "mpu.reject", "complete")
		unchanged("no such upload")
		return
	}
	okList, why := completeVerdict(u, op.Parts)
	if !okList {
		if resp.Status < 400 || resp.Status >= 500 {
			r.fail("mpu.reject", fmt.Sprintf("a complete request with an invalid part list (%s) is not rejected", why), "4xx", resp.String())
		}
		r.probe("invalid complete: " + why)
		unchanged(why)
		return
	}
	if sure, maybe := r.fsKeyConflict(bucket, key); (sure || maybe) && !r.me().faulted {
		// the backend cannot store the key next to the ones it holds: the
		// complete is refused and, like any refused complete, changes nothing
		if !resp.OK() && resp.Status < 500 {
			r.probe("complete refused by the backend: key in a path relation with a stored key (fs)")
			unchanged("the backend cannot store the key")
			return
		}
		if sure {
			r.fail("mpu.reject", "a complete whose key conflicts with a stored key on a file-system backend is not refused with a client error "+r.bctx(), "4xx", resp.String())
		}
	}
	if r.faultedOut(resp, bucket, key) {
		if !resp.OK() {
			// the object is indeterminate after a disk fault, but a complete
			// that failed must leave the pending upload as it was
			if after := r.observeUploads(u.Bucket); strings.Join(after, "\n") != strings.Join(upBefore, "\n") {
				r.fail("mpu.reject", "a complete request that failed on a disk error changed or dropped the pending upload "+r.bctx(), fmt.Sprint(upBefore), fmt.Sprint(after))
			}
			r.ok("mpu.reject")
			r.probe("complete failed on an injected disk fault")
			return
		}
		// acknowledged although a fault hit: judged as usual below
		if k := r.M.Buckets[bucket].Keys[key]; k != nil {
			k.Indet = false
		}
	}
	var x xCompleteResult
	if resp.Status != 200 || xml.Unmarshal(resp.Body, &x) != nil {
		r.fail("mpu.complete", "a valid complete request fails "+r.bctx(), "200 CompleteMultipartUploadResult", resp.String()+" "+resp.Msg)
	}
	var ents []*model.Entity
	var whole []byte
	for _, p := range op.Parts {
		e := u.Parts[p.N]
		ents = append(ents, e)
		whole = append(whole, e.Body...)
	}
	wantETag := model.MultipartETag(ents)
	if x.ETag != wantETag {
		r.fail("mpu.complete", "the ETag of the completed upload is not md5(concatenated part MD5s)-<count>", wantETag, x.ETag)
	}
	if len(op.Parts) < len(u.Parts) {
		r.probe("complete with a subset of the uploaded parts")
	}
	ent := model.NewEntity(whole, u.Meta, fmt.Sprintf("multipart upload %s parts %v", u.ID, op.Parts))
	ent.AltETag = wantETag
	b := r.M.Buckets[bucket]
	v := r.M.Put(b, key, ent)
	if b.Versioning == "Enabled" {
		r.learnVersion(b, key, v, resp, "complete")
	}
	u.Gone = true
	r.stats.Mutations++
	g := r.quiet("GET", target(bucket, key, nil))
	clBody := "mpu.complete"
	if r.Prop == "C08" {
		// role in a C08 run: the parts held by the upload are still the accepted
		// ones after every rejected re-upload
		clBody = "reject.unchanged"
	}
	r.checkEntity(g, ent, false, clBody, "(after complete)")
	lp := r.quiet("GET", target(bucket, key, url.Values{"uploadId": {id}}))
	if lp.Status != 404 {
		r.fail("mpu.complete", "the upload id still exists after a successful complete", "404 NoSuchUpload", lp.String())
	}
	r.ok("mpu.complete")
}

func (r *Run) opMpuAbort(op *Op) {
	u, bucket, key, id, mismatch := r.uploadAddr(op)
	keyBefore := r.observeKey(bucket, key)
	resp := r.simple("DELETE", target(bucket, key, url.Values{"uploadId": {id}}), op)
	r.noPanic(resp, "abort multipart upload")
	r.logf("  -> %s", resp.String())
	if after := r.observeKey(bucket, key); *after != *keyBefore {
		r.fail("mpu.abort", "abort changes the stored object "+r.bctx(), keyBefore.String(), after.String())
	}
	if u == nil || u.Gone || mismatch {
		if mismatch {
			lp := r.quiet("GET", target(u.Bucket, u.Key, url.Values{"uploadId": {u.ID}}))
			if lp.Status != 200 {
				r.fail("frame.others", "an abort with an upload id that belongs to another key or bucket removes that upload "+r.bctx(), "upload still pending", lp.String())
			}
			r.ok("frame.others")
		}
		r.expectNoUpload(resp, "mpu.abort", "abort")
		return
	}
	if !resp.OK() {
		r.fail("mpu.abort", "aborting a pending upload fails", "204", resp.String())
	}
	u.Gone = true
	r.stats.Mutations++
	lp := r.quiet("GET", target(bucket, key, url.Values{"uploadId": {id}}))
	if lp.Status != 404 {
		r.fail("mpu.abort", "the upload id still exists after abort", "404 NoSuchUpload", lp.String())
	}
	r.ok("mpu.abort")
}

// ---------------------------------------------------------------- ListParts

func (r *Run) doListParts(op *Op, bucket, key, id string, marker int, hasMarker bool) (*xPartsResult, *Resp) {
	q := url.Values{"uploadId": {id}}
	if op.Max > 0 {
		q.Set("max-parts", strconv.Itoa(op.Max))
	}
	if hasMarker {
		q.Set("part-number-marker", strconv.Itoa(marker))
	}
	resp := r.simple("GET", target(bucket, key, q), op)
	r.noPanic(resp, "list parts")
	if resp.Status != 200 {
		return nil, resp
	}
	var x xPartsResult
	if xml.Unmarshal(resp.Body, &x) != nil {
		r.fail("mpu.list", "ListParts answer is not a ListPartsResult document", "ListPartsResult", trunc(string(resp.Body), 200))
	}
	return &x, resp
}

func (r *Run) checkParts(cl string, u *model.Upload, got []xPart, want []int) {
	var gn []int
	for _, p := range got {
		gn = append(gn, p.PartNumber)
	}
	if fmt.Sprint(gn) != fmt.Sprint(want) {
		r.fail(cl, "ListParts does not show exactly the held parts with their true numbers in ascending order", fmt.Sprint(want), fmt.Sprint(gn))
	}
	for _, p := range got {
		e := u.Parts[p.PartNumber]
		if strings.Trim(p.ETag, `"`) != e.MD5 || p.Size != int64(len(e.Body)) {
			r.fail(cl, "a listed part's ETag or Size differs from the most recent upload of that part", fmt.Sprintf("%d: %s %d", p.PartNumber, e.MD5, len(e.Body)), fmt.Sprintf("%s %d", p.ETag, p.Size))
		}
	}
}

func (r *Run) opMpuListParts(op *Op) {
	u, bucket, key, id, mismatch := r.uploadAddr(op)
	x, resp := r.doListParts(op, bucket, key, id, op.Part, op.HasMk)
	r.logf("  -> %s", resp.String())
	if u == nil || u.Gone || mismatch {
		r.expectNoUpload(resp, "mpu.list", "ListParts")
		return
	}
	if x == nil {
		r.fail("mpu.list", "ListParts of a pending upload fails", "200", resp.String()+" "+resp.Msg)
	}
	all := u.PartNumbers()
	if !op.HasMk && op.Max == 0 && len(all) < protocolPage { // (an absent max-parts means the protocol's page of 1000)
		r.checkParts("mpu.list", u, x.Parts, all)
		if x.IsTruncated {
			r.fail("mpu.list", "an unpaginated ListParts reports IsTruncated=true", "false", "true")
		}
		r.ok("mpu.list")
		return
	}
	// client-chosen marker: parts > marker (or >= marker), at most max
	var gt, ge []int
	for _, n := range all {
		if !op.HasMk || n > op.Part {
			gt = append(gt, n)
		}
		if !op.HasMk || n >= op.Part {
			ge = append(ge, n)
		}
	}
	clip := func(l []int) []int {
		if len(l) > pageSize(op) {
			return l[:pageSize(op)]
		}
		return l
	}
	var gn []int
	for _, p := range x.Parts {
		gn = append(gn, p.PartNumber)
	}
	if op.HasMk && len(all) > 0 && op.Part > all[len(all)-1] {
		r.probe("part-number-marker beyond the highest part")
	}
	switch fmt.Sprint(gn) {
	case fmt.Sprint(clip(gt)):
		r.checkParts("mpu.walk", u, x.Parts, clip(gt))
		if x.IsTruncated != (len(gt) > len(gn)) {
			r.fail("mpu.walk", "ListParts IsTruncated does not say whether parts remain", fmt.Sprint(len(gt) > len(gn)), fmt.Sprint(x.IsTruncated))
		}
	case fmt.Sprint(clip(ge)):
		r.checkParts("mpu.walk", u, x.Parts, clip(ge))
	default:
		r.fail("mpu.walk", "ListParts after a part-number marker does not return the parts beyond the marker with their true numbers", fmt.Sprintf("%v or %v", clip(gt), clip(ge)), fmt.Sprint(gn))
	}
	r.ok("mpu.walk")
}

func (r *Run) opMpuWalkParts(op *Op) {
	u, bucket, key, id, mismatch := r.uploadAddr(op)
	if u == nil || u.Gone || mismatch {
		return
	}
	want := u.PartNumbers()
	var got []xPart
	marker, has := 0, false
	pages := 0
	for {
		pages++
		if pages > len(want)+3 {
			r.fail("mpu.walk", "paging through ListParts does not terminate", fmt.Sprintf("<= %d pages", len(want)+2), "more")
		}
		x, resp := r.doListParts(op, bucket, key, id, marker, has)
		if x == nil {
			r.fail("mpu.walk", "a ListParts page request made with the marker the server returned fails", "200", resp.String()+" "+resp.Msg)
		}
		if len(x.Parts) > pageSize(op) {
			r.fail("mpu.walk", "a ListParts page holds more parts than max-parts", fmt.Sprintf("<= %d", pageSize(op)), fmt.Sprint(len(x.Parts)))
		}
		got = append(got, x.Parts...)
		if !x.IsTruncated {
			break
		}
		if len(x.Parts) == 0 {
			r.fail("mpu.walk", "a truncated ListParts page is empty", ">= 1", "0")
		}
		marker, has = x.NextPartNumberMarker, true
	}
	if pages > 1 {
		r.probe("multi-page ListParts walk")
	}
	var gn []int
	for _, p := range got {
		gn = append(gn, p.PartNumber)
	}
	if fmt.Sprint(gn) != fmt.Sprint(want) {
		r.fail("mpu.walk", "paging through ListParts does not visit every part exactly once with its true number", fmt.Sprint(want), fmt.Sprint(gn))
	}
	r.checkParts("mpu.walk", u, got, want)
	r.ok("mpu.walk")
	r.logf("  -> %d pages %d parts", pages, len(got))
}

// ---------------------------------------------------------------- ListMultipartUploads

func (r *Run) doListUploads(op *Op, km, um string) (*xUploadsResult, *Resp) {
	q := url.Values{"uploads": {""}}
	if op.Prefix != "" {
		q.Set("prefix", op.Prefix)
	}
	if op.Delim != "" {
		q.Set("delimiter", op.Delim)
	}
	if op.Max > 0 {
		q.Set("max-uploads", strconv.Itoa(op.Max))
	}
	if km != "" {
		q.Set("key-marker", km)
		if um != "" {
			q.Set("upload-id-marker", um)
		}
	}
	resp := r.simple("GET", target(op.B, "", q), op)
	r.noPanic(resp, "list multipart uploads")
	if resp.Status != 200 {
		return nil, resp
	}
	var x xUploadsResult
	if xml.Unmarshal(resp.Body, &x) != nil {
		r.fail("mpu.list", "ListMultipartUploads answer is not a ListMultipartUploadsResult document", "ListMultipartUploadsResult", trunc(string(resp.Body), 200))
	}
	return &x, resp
}

func (r *Run) expectedUploads(bucket, prefix, delim string) (ups []string, prefixes []string) {
	pend := r.M.PendingUploads(bucket)
	var keys []string
	for _, u := range pend {
		keys = append(keys, u.Key)
	}
	ck, prefixes := model.Group(keys, prefix, delim)
	in := map[string]bool{}
	for _, k := range ck {
		in[k] = true
	}
	for _, u := range pend {
		if in[u.Key] {
			ups = append(ups, u.Key+"|"+u.ID)
		}
	}
	return
}

func (r *Run) opMpuListUploads(op *Op) {
	x, resp := r.doListUploads(op, "", "")
	r.logf("  -> %s", resp.String())
	b := r.bucket(op.B)
	if b == nil {
		r.expectNoBucket(resp, "ListMultipartUploads")
		return
	}
	if !b.HadUpload {
		return // "once a bucket has had an upload initiated"
	}
	if x == nil {
		r.fail("mpu.list", "ListMultipartUploads fails", "200", resp.String()+" "+resp.Msg)
	}
	want, wantP := r.expectedUploads(op.B, op.Prefix, op.Delim)
	if op.Max > 0 || len(want)+len(wantP) >= protocolPage {
		// one page (an absent max-uploads means the protocol's page of 1000)
		if len(x.Uploads) > pageSize(op) {
			r.fail("mpu.walk", "a ListMultipartUploads page holds more uploads than max-uploads", fmt.Sprintf("<= %d", pageSize(op)), fmt.Sprint(len(x.Uploads)))
		}
		return
	}
	var got, gotP []string
	for _, u := range x.Uploads {
		got = append(got, u.Key+"|"+u.UploadID)
	}
	for _, p := range x.CommonPrefixes {
		gotP = append(gotP, p.Prefix)
	}
	if fmt.Sprint(got) != fmt.Sprint(want) {
		r.fail("mpu.list", "ListMultipartUploads does not show exactly the pending uploads ordered by key then initiation", fmt.Sprint(want), fmt.Sprint(got))
	}
	if fmt.Sprint(gotP) != fmt.Sprint(wantP) {
		r.fail("mpu.list", "ListMultipartUploads CommonPrefixes differ from the grouping of the pending uploads' keys", fmt.Sprint(wantP), fmt.Sprint(gotP))
	}
	if x.IsTruncated {
		r.fail("mpu.list", "an unpaginated ListMultipartUploads reports IsTruncated=true", "false", "true")
	}
	r.ok("mpu.list")
}

func (r *Run) opMpuWalkUploads(op *Op) {
	b := r.bucket(op.B)
	if b == nil || !b.HadUpload {
		return
	}
	want, wantP := r.expectedUploads(op.B, op.Prefix, op.Delim)
	var got, gotP []string
	seenP := map[string]bool{}
	km, um := "", ""
	pages := 0
	for {
		pages++
		if pages > len(want)+len(wantP)+3 {
			r.fail("mpu.walk", "paging through ListMultipartUploads does not terminate", "bounded", "more pages than entries")
		}
		x, resp := r.doListUploads(op, km, um)
		if x == nil {
			r.fail("mpu.walk", "a ListMultipartUploads page request made with the markers the server returned fails", "200", resp.String()+" "+resp.Msg)
		}
		if len(x.Uploads) > pageSize(op) {
			r.fail("mpu.walk", "a ListMultipartUploads page holds more uploads than max-uploads", fmt.Sprintf("<= %d", pageSize(op)), fmt.Sprint(len(x.Uploads)))
		}
		for _, u := range x.Uploads {
			got = append(got, u.Key+"|"+u.UploadID)
		}
		for _, p := range x.CommonPrefixes {
			if !seenP[p.Prefix] {
				seenP[p.Prefix] = true
				gotP = append(gotP, p.Prefix)
			}
		}
		if !x.IsTruncated {
			break
		}
		if x.NextKeyMarker == "" {
			r.fail("mpu.walk", "a truncated ListMultipartUploads carries no NextKeyMarker", "marker", "none")
		}
		if len(x.Uploads) == 0 && len(x.CommonPrefixes) == 0 {
			r.fail("mpu.walk", "a truncated ListMultipartUploads page is empty", ">= 1", "0")
		}
		km, um = x.NextKeyMarker, x.NextUploadIDMarker
	}
	if pages > 1 {
		r.probe("multi-page ListMultipartUploads walk")
	}
	if fmt.Sprint(got) != fmt.Sprint(want) {
		r.fail("mpu.walk", "paging through ListMultipartUploads does not visit every pending upload exactly once in key/initiation order", fmt.Sprint(want), fmt.Sprint(got))
	}
	sort.Strings(gotP)
	if fmt.Sprint(gotP) != fmt.Sprint(wantP) {
		r.fail("mpu.walk", "paging through ListMultipartUploads does not report each common prefix", fmt.Sprint(wantP), fmt.Sprint(gotP))
	}
	r.ok("mpu.walk")
	r.logf("  -> %d pages %d uploads", pages, len(got))
}
