package engine

import (
	"bytes"
	"encoding/xml"
	"fmt"
	"net/url"
	"sort"
	"strconv"
	"strings"

	"simrt"
	"verif/sim/model"
	"verif/sim/simnet"
)

func (r *Run) ctx() string {
	c := "backend=" + r.Plan.Config.Backend
	if r.Plan.Config.IsFS() {
		fs := r.Plan.Config.FS
		if fs == "" {
			fs = "simfs"
		}
		c += "/" + fs
	}
	return c
}

// bctx is the backend class only (mem | bolt | fs): signatures use it so that
// one defect has one signature on every fs flavour.
func (r *Run) bctx() string {
	if r.Plan.Config.IsFS() {
		return "backend=fs"
	}
	return "backend=" + r.Plan.Config.Backend
}

func opSummary(op *Op) string {
	var b strings.Builder
	b.WriteString(op.K)
	if op.B != "" {
		b.WriteString(" " + op.B)
	}
	if op.Key != "" {
		fmt.Fprintf(&b, "/%q", op.Key)
	}
	if op.Body != nil {
		fmt.Fprintf(&b, " body(%d,#%d)", op.Body.Size, op.Body.Stream)
	}
	if op.Ver != 0 {
		fmt.Fprintf(&b, " ver=%d", op.Ver)
	}
	if op.K == "list" || op.K == "walk" || op.K == "lsversions" || op.K == "walkversions" || op.K == "mpu-lsuploads" || op.K == "mpu-walkuploads" {
		fmt.Fprintf(&b, " prefix=%q delim=%q max=%d v2=%v", op.Prefix, op.Delim, op.Max, op.V2)
		if op.HasMk {
			fmt.Fprintf(&b, " marker=%q", op.Marker)
		}
	}
	if op.K == "copy" {
		fmt.Fprintf(&b, " <- %s/%q", op.SrcB, op.SrcKey)
	}
	if strings.HasPrefix(op.K, "mpu-") {
		fmt.Fprintf(&b, " up=%d part=%d parts=%v", op.Up, op.Part, op.Parts)
	}
	if op.MD5 != "" || op.LenLie != 0 || op.NoLen || op.TE || op.ChLie != "" {
		fmt.Fprintf(&b, " lies[md5=%s len%+d nolen=%v te=%v ch=%s]", op.MD5, op.LenLie, op.NoLen, op.TE, op.ChLie)
	}
	if len(op.Chunks) > 0 {
		fmt.Fprintf(&b, " chunks=%v", op.Chunks)
	}
	if len(op.Faults) > 0 {
		fmt.Fprintf(&b, " faults=%v", op.Faults)
	}
	if op.API {
		b.WriteString(" [api]")
	}
	if op.Form {
		b.WriteString(" [form]")
	}
	return b.String()
}

func (r *Run) exec(ci, oi int, op *Op) {
	switch r.Plan.Config.Mode {
	case "lin":
		r.execLin(ci, oi, op)
		return
	case "raw":
		r.execRaw(ci, oi, op)
		return
	}
	r.logf("c%d#%d %s", ci, oi, opSummary(op))
	if op.API {
		r.execAPI(op)
		return
	}
	switch op.K {
	case "mkbucket":
		r.opMkBucket(op)
	case "headbucket":
		r.opHeadBucket(op)
	case "rmbucket":
		r.opRmBucket(op)
	case "bulk":
		r.opBulk(op)
	case "lsbuckets":
		r.opLsBuckets(op)
	case "put":
		r.opPut(op)
	case "get", "head":
		r.opRead(op)
	case "del":
		r.opDelete(op)
	case "delmulti":
		r.opDeleteMulti(op)
	case "copy":
		r.opCopy(op)
	case "setver":
		r.opSetVersioning(op)
	case "list":
		r.opList(op)
	case "walk":
		r.opWalk(op)
	case "lsversions":
		r.opListVersions(op)
	case "walkversions":
		r.opWalkVersions(op)
	case "mpu-init":
		r.opMpuInit(op)
	case "mpu-part":
		r.opMpuPart(op)
	case "mpu-complete":
		r.opMpuComplete(op)
	case "mpu-abort":
		r.opMpuAbort(op)
	case "mpu-lsparts":
		r.opMpuListParts(op)
	case "mpu-walkparts":
		r.opMpuWalkParts(op)
	case "mpu-lsuploads":
		r.opMpuListUploads(op)
	case "mpu-walkuploads":
		r.opMpuWalkUploads(op)
	case "restart":
		r.opRestart(op)
	case "fullcheck":
		r.fullCheck("read.content")
	case "badput":
		r.opBadPut(op)
	case "hostile":
		r.opHostile(op)
	case "noop":
	default:
		panic("unknown op kind " + op.K)
	}
}

// ---------------------------------------------------------------- helpers

func (r *Run) frag(op *Op) string {
	if op != nil && op.Frag != "" {
		return op.Frag
	}
	return r.Plan.Config.Frag
}

func (r *Run) simple(method, tgt string, op *Op) *Resp {
	var faults []Fault
	if op != nil {
		faults = op.Faults
	}
	return r.send(&simnet.Request{Method: method, Target: tgt}, faults, r.frag(op))
}

// quiet issues an observation request without the op's faults.
func (r *Run) quiet(method, tgt string) *Resp {
	me := r.me()
	saved := me.opFaults
	me.opFaults = nil // observations are never hit by the op's disk faults
	defer func() { me.opFaults = saved }()
	return r.send(&simnet.Request{Method: method, Target: tgt}, nil, "whole")
}

// quiet2 is quiet for a request with headers.
func (r *Run) quiet2(req *simnet.Request) *Resp {
	me := r.me()
	saved := me.opFaults
	me.opFaults = nil
	defer func() { me.opFaults = saved }()
	resp := r.send(req, nil, "whole")
	r.noPanic(resp, req.Method+" "+req.Target)
	return resp
}

func (r *Run) noPanic(resp *Resp, what string) {
	if resp.Panic != nil {
		r.setViol("no-panic", fmt.Sprintf("%s panics: %s", what, panicSig(resp)), "a response", fmt.Sprintf("%v\n%s", resp.Panic, trunc(resp.Stack, 3000)))
		panic(stopRun{})
	}
}

func panicSig(resp *Resp) string {
	// the first gofakes3 frame of the stack names the site
	for _, line := range strings.Split(resp.Stack, "\n") {
		line = strings.TrimSpace(line)
		i := strings.Index(line, "gofakes3")
		if i < 0 || !strings.Contains(line, ".go:") || strings.Contains(line, "/verif/") {
			continue
		}
		s := line[i:]
		if j := strings.Index(s, "/"); j >= 0 {
			s = s[j+1:]
		}
		if j := strings.Index(s, " "); j > 0 {
			s = s[:j]
		}
		if k := strings.LastIndex(s, ":"); k > 0 {
			s = s[:k] // drop the line number: instrumented lines differ from source lines
		}
		return fmt.Sprintf("%s at %s", normNum(fmt.Sprint(resp.Panic)), s)
	}
	return normNum(fmt.Sprint(resp.Panic))
}

// normNum replaces digit runs by N so that one defect has one signature.
func normNum(s string) string {
	var b strings.Builder
	in := false
	for _, c := range s {
		if c >= '0' && c <= '9' {
			if !in {
				b.WriteByte('N')
			}
			in = true
			continue
		}
		in = false
		b.WriteRune(c)
	}
	return b.String()
}

// bucket returns the model bucket an object-level request resolves to,
// creating it when auto-bucket is on.
func (r *Run) bucket(name string) *model.Bucket {
	b := r.M.Buckets[name]
	if b == nil && r.Plan.Config.AutoBucket && r.Plan.Config.Backend != "singlefs" {
		b = r.M.CreateBucket(name)
	}
	return b
}

// faultedOut implements the narrow relaxation of DESIGN §5: an operation that
// failed after an injected disk fault hit it makes only its own keys
// indeterminate; nothing else about its answer is judged.
func (r *Run) faultedOut(resp *Resp, bucket string, keys ...string) bool {
	if !r.me().faulted {
		return false
	}
	r.faultSeen = true
	if bucket != "" && r.Plan.Config.Backend != "singlefs" {
		// whether the bucket exists (auto-creation, create/delete bucket) is
		// whatever the store now says
		exists := r.quiet("HEAD", target(bucket, "", nil)).Status == 200
		if exists && r.M.Buckets[bucket] == nil {
			r.M.CreateBucket(bucket)
		} else if !exists && r.M.Buckets[bucket] != nil && r.M.Buckets[bucket].Empty() {
			delete(r.M.Buckets, bucket)
		}
	}
	if b := r.M.Buckets[bucket]; b != nil {
		b.Dirty = true
		for _, kn := range keys {
			if kn == "" {
				continue
			}
			k := b.Keys[kn]
			if k == nil {
				k = &model.Key{}
				b.Keys[kn] = k
			}
			k.Indet = true
		}
	}
	r.logf("  -> hit by an injected disk fault: %v indeterminate", keys)
	return true
}

// faultedUpload judges an upload of one key that was hit by an injected disk
// fault.  Faults are one-shot: exactly one file-system call of the operation
// fails, and since nothing failed before it, it is a call of the upload's
// forward path; whatever the server does to clean up afterwards runs without
// faults.  So the outcome is determinate: an upload that was refused left the
// key as it was, or (the fs backends unlink the previous object before they
// create the new one) absent - never partial, never with other metadata, and
// no directories behind; an upload that was acknowledged although a disk call
// failed is stored whole.  The model follows what is observed, so that the
// checks that come later (listings, emptiness of the bucket) stay exact.
// It reports false when the generic relaxation has to take over.
func (r *Run) faultedUpload(resp *Resp, bucket, key string, ent *model.Entity, kind string) bool {
	if !r.me().faulted || r.Plan.Config.AutoBucket || r.Plan.Config.CrashAll {
		return false
	}
	b := r.M.Buckets[bucket]
	if b == nil || b.Versioning != "" {
		return false
	}
	if k := b.Keys[key]; k != nil && k.Indet {
		return false
	}
	r.faultSeen = true
	old := liveOf(r.M, bucket, key)
	ks := r.observeKey(bucket, key)
	if resp.OK() {
		r.M.Put(b, key, ent)
		if now := liveOf(r.M, bucket, key); !entityMatches(ks, now) {
			r.fail("fault.clean", fmt.Sprintf("an upload (%s) acknowledged although a disk call failed is not stored whole %s", kind, r.bctx()),
				descEnt(now), ks.String())
		}
		r.stats.Mutations++
		r.probe("upload acknowledged although a disk call failed")
	} else {
		switch {
		case entityMatches(ks, old):
		case ks.Status == 404:
			// the previous object is gone: the fs backends replace by unlink + create
			r.M.Delete(b, key)
			r.probe("refused upload lost the previous object (unlink before create)")
		default:
			r.fail("fault.clean", fmt.Sprintf("an upload (%s) refused after a disk error left neither the previous object nor nothing behind %s", kind, r.bctx()),
				descEnt(old)+" or absent", ks.String())
		}
		r.probe("upload refused after a disk error: key state determinate")
	}
	r.ok("fault.clean")
	r.logf("  -> hit by an injected disk fault: %s, key state resolved by observation", resp.String())
	return true
}

// serverFailure charges a 5xx answer to a correct request: after an injected
// disk fault has hit some other operation it is C09's "still answers correct
// requests" clause, otherwise the given clause.
func (r *Run) serverFailure(clause, sig, exp, obs string) {
	if r.faultSeen {
		r.fail("canary", "after an injected disk fault on another request: "+sig, exp, obs)
	}
	r.fail(clause, sig, exp, obs)
}

func (r *Run) expectNoBucket(resp *Resp, what string) {
	if resp.Status == 404 && (resp.Code == "NoSuchBucket" || len(resp.Body) == 0) {
		r.ok("read.absent")
		return
	}
	r.fail("read.absent", fmt.Sprintf("%s on an absent bucket does not answer NoSuchBucket %s", what, r.bctx()), "404 NoSuchBucket", resp.String())
}

func etagOf(e *model.Entity) string { return `"` + e.MD5 + `"` }

// checkEntity verifies a GET/HEAD answer against the entity the model says
// is served.  cl names the clause family ("read" or "version").
func (r *Run) checkEntity(resp *Resp, e *model.Entity, head bool, clContent, what string) {
	verb := "GET"
	if head {
		verb = "HEAD"
	}
	if resp.Status != 200 {
		r.fail(clContent, fmt.Sprintf("%s %s of a stored object answers %s %s", verb, what, resp.String(), r.bctx()), "200", resp.String())
	}
	if head {
		if len(resp.Body) != 0 {
			r.fail(clContent, "HEAD returns a body "+r.bctx(), "empty body", fmt.Sprintf("%d bytes", len(resp.Body)))
		}
	} else if !bytes.Equal(resp.Body, e.Body) {
		r.fail(clContent, fmt.Sprintf("GET %s body differs from the bytes of the upload it should serve %s", what, r.bctx()),
			fmt.Sprintf("%d bytes md5=%s (%s)", len(e.Body), e.MD5, e.Tag), describeBody(resp.Body))
	}
	if cl := resp.Header.Get("Content-Length"); cl != "" || head {
		if cl != strconv.Itoa(len(e.Body)) {
			r.fail(clContent, fmt.Sprintf("%s %s Content-Length differs from the object's size %s", verb, what, r.bctx()), strconv.Itoa(len(e.Body)), cl)
		}
	}
	if et := resp.Header.Get("ETag"); et != etagOf(e) && (e.AltETag == "" || et != e.AltETag) {
		r.fail(clContent, fmt.Sprintf("%s %s ETag is not the quoted MD5 of the body %s", verb, what, r.bctx()), etagOf(e), et)
	}
	r.ok(clContent)
	if e.Meta != nil {
		cm := "read.metadata"
		if clContent != "read.content" {
			cm = clContent
		}
		for _, kv := range sortedMeta(e.Meta) {
			if got := resp.Header.Get(kv[0]); got != kv[1] {
				r.fail(cm, fmt.Sprintf("%s %s does not return a metadata header as sent with the upload %s", verb, what, r.bctx()),
					fmt.Sprintf("%s: %q", kv[0], kv[1]), fmt.Sprintf("%q", got))
			}
		}
		r.ok(cm)
	}
}

func describeBody(b []byte) string {
	e := model.NewEntity(b, nil, "")
	return fmt.Sprintf("%d bytes md5=%s head=%x", len(b), e.MD5, b[:min(len(b), 8)])
}

func min(a, b int) int {
	if a < b {
		return a
	}
	return b
}

func (r *Run) expectNoKey(resp *Resp, head bool, what string) {
	if resp.Status == 404 && (head || resp.Code == "NoSuchKey") {
		r.ok("read.absent")
		return
	}
	r.fail("read.absent", fmt.Sprintf("%s of a deleted or never-written key does not answer NoSuchKey %s", what, r.bctx()), "404 NoSuchKey", resp.String())
}

// ---------------------------------------------------------------- buckets

func (r *Run) opMkBucket(op *Op) {
	resp := r.simple("PUT", target(op.B, "", nil), op)
	r.noPanic(resp, "create bucket")
	if r.faultedOut(resp, op.B) || r.Plan.Config.Backend == "singlefs" {
		return // cannot create buckets: not judged
	}
	if r.M.Buckets[op.B] != nil {
		if resp.Status == 409 && resp.Code == "BucketAlreadyExists" {
			r.ok("bucket.semantics")
			return
		}
		r.fail("bucket.semantics", "re-creating a bucket does not answer BucketAlreadyExists "+r.bctx(), "409 BucketAlreadyExists", resp.String())
	}
	if !resp.OK() {
		r.fail("bucket.semantics", "creating a bucket fails "+r.bctx(), "2xx", resp.String())
	}
	r.M.CreateBucket(op.B)
	r.stats.Mutations++
	r.ok("bucket.semantics")
}

func (r *Run) opHeadBucket(op *Op) {
	resp := r.simple("HEAD", target(op.B, "", nil), op)
	r.noPanic(resp, "head bucket")
	if r.faultedOut(resp, "", "") {
		return
	}
	if r.bucket(op.B) == nil {
		r.expectNoBucket(resp, "HEAD bucket")
		return
	}
	if !resp.OK() {
		r.fail("bucket.semantics", "HEAD of an existing bucket fails "+r.bctx(), "200", resp.String())
	}
	r.ok("bucket.semantics")
}

func (r *Run) opRmBucket(op *Op) {
	force := op.Status == "force"
	var resp *Resp
	if force {
		// Minio-style forced deletion: the bucket goes together with its objects
		resp = r.send(&simnet.Request{Method: "DELETE", Target: target(op.B, "", nil), Headers: [][2]string{{"x-minio-force-delete", "true"}}}, op.Faults, r.frag(op))
	} else {
		resp = r.simple("DELETE", target(op.B, "", nil), op)
	}
	r.noPanic(resp, "delete bucket")
	if force && r.me().faulted && r.faultedForceRm(resp, op.B) {
		return
	}
	if r.faultedOut(resp, op.B) {
		return
	}
	if r.Plan.Config.Backend == "singlefs" {
		// the one bucket of this backend cannot be deleted; a forced deletion
		// empties it and it stays usable
		if b := r.bucket(op.B); force && b != nil {
			if !resp.OK() {
				r.fail("bucket.semantics", "a forced deletion of the single bucket is answered with an error "+r.bctx(), "204", resp.String())
			}
			for k := range b.Keys {
				delete(b.Keys, k)
			}
			r.stats.Mutations++
			r.ok("bucket.semantics")
			r.probe("forced bucket deletion")
		}
		return
	}
	b := r.bucket(op.B)
	if b == nil {
		r.expectNoBucket(resp, "DELETE bucket")
		return
	}
	if force {
		if !resp.OK() {
			r.fail("bucket.semantics", "a forced deletion of an existing bucket is answered with an error "+r.bctx(), "204", resp.String())
		}
		delete(r.M.Buckets, op.B)
		r.stats.Mutations++
		r.ok("bucket.semantics")
		r.probe("forced bucket deletion")
		return
	}
	if (b.Dirty || len(r.indetKeys(b)) > 0) && (resp.Status == 204 || resp.Status == 409) {
		if resp.Status == 204 {
			delete(r.M.Buckets, op.B)
		}
		return
	}
	if !b.Empty() {
		if resp.Status == 409 && resp.Code == "BucketNotEmpty" {
			r.ok("bucket.semantics")
			return
		}
		if b.Versioning != "" && resp.OK() {
			// every version of every key went with the bucket, none of them deleted by id
			r.fail("version.read", "deleting a bucket that still holds versions (its keys only read as deleted) succeeds "+r.bctx(), "409 BucketNotEmpty", resp.String())
		}
		r.fail("bucket.semantics", "deleting a non-empty bucket does not answer BucketNotEmpty "+r.bctx(), "409 BucketNotEmpty", resp.String())
	}
	if !resp.OK() {
		r.fail("bucket.semantics", "deleting a bucket whose objects have all been deleted fails "+r.bctx(), "204", resp.String())
	}
	delete(r.M.Buckets, op.B)
	r.stats.Mutations++
	r.ok("bucket.semantics")
}

// faultedForceRm judges a forced bucket deletion that was hit by an injected
// (one-shot) disk fault.  On a file system the deletion is many unlinks, so a
// refused one may have removed part of the bucket; what it may not do is alter
// what it leaves: every object of the bucket is afterwards served exactly as
// it was acknowledged - bytes, ETag, metadata - or it is gone.  The model
// follows what is observed.
func (r *Run) faultedForceRm(resp *Resp, bucket string) bool {
	b := r.M.Buckets[bucket]
	if b == nil {
		return false
	}
	if b.Versioning != "" || r.Plan.Config.AutoBucket || r.Plan.Config.CrashAll {
		// the generic relaxation: any object of the bucket may be gone
		var kns []string
		for kn := range b.Keys {
			kns = append(kns, kn)
		}
		sort.Strings(kns)
		return r.faultedOut(resp, bucket, kns...)
	}
	r.faultSeen = true
	single := r.Plan.Config.Backend == "singlefs"
	exists := single || r.quiet("HEAD", target(bucket, "", nil)).Status == 200
	if resp.OK() && exists && !single {
		r.fail("fault.clean", "a forced bucket deletion acknowledged although a disk call failed leaves the bucket in place "+r.bctx(), "404", "200")
	}
	if !exists {
		delete(r.M.Buckets, bucket)
		r.stats.Mutations++
		r.ok("fault.clean")
		return true
	}
	var kns []string
	for kn, k := range b.Keys {
		if !k.Indet {
			kns = append(kns, kn)
		}
	}
	sort.Strings(kns)
	for _, kn := range kns {
		old := liveOf(r.M, bucket, kn)
		ks := r.observeKey(bucket, kn)
		switch {
		case ks.Status == 404:
			if old != nil {
				r.M.Delete(b, kn)
				r.probe("refused forced deletion removed part of the bucket")
			}
		case resp.OK():
			r.fail("fault.clean", "a forced deletion of the bucket's contents was acknowledged and an object is still served "+r.bctx(), "404", bucket+"/"+strconv.Quote(kn)+" "+ks.String())
		case !entityMatches(ks, old):
			r.fail("fault.clean", "an object that survives a forced bucket deletion refused after a disk error is not served as it was acknowledged "+r.bctx(), descEnt(old), bucket+"/"+strconv.Quote(kn)+" "+ks.String())
		}
	}
	r.ok("fault.clean")
	r.probe("forced bucket deletion hit by a disk fault: every object intact or gone")
	r.logf("  -> hit by an injected disk fault: %s, bucket state resolved by observation", resp.String())
	if resp.OK() {
		return true
	}
	// The call that failed may have been the removal of a directory, which
	// then stays behind without a key in it.  The client does what a client
	// does with a 500: it sends the request again, and now nothing fails.
	again := r.quiet2(&simnet.Request{Method: "DELETE", Target: target(bucket, "", nil), Headers: [][2]string{{"x-minio-force-delete", "true"}}})
	if !again.OK() {
		r.fail("fault.clean", "a forced bucket deletion refused after a disk error cannot be repeated "+r.bctx(), "204", again.String())
	}
	if single {
		for k := range b.Keys {
			delete(b.Keys, k)
		}
		if _, l := r.observeListing(bucket); len(l) > 0 {
			r.fail("fault.clean", "the repeated forced deletion leaves objects behind "+r.bctx(), "empty listing", fmt.Sprint(l))
		}
	} else {
		delete(r.M.Buckets, bucket)
		if g := r.quiet("HEAD", target(bucket, "", nil)); g.Status != 404 {
			r.fail("fault.clean", "the repeated forced deletion leaves the bucket in place "+r.bctx(), "404", g.String())
		}
	}
	r.stats.Mutations++
	return true
}

// opBulk fills a bucket with op.Max small objects through the Go Backend API
// (set-up for operations whose cost or transaction structure depends on the
// number of objects, e.g. a forced bucket deletion of a large bucket).
func (r *Run) opBulk(op *Op) {
	b := r.bucket(op.B)
	if b == nil {
		return
	}
	for i := 0; i < op.Max; i++ {
		key := fmt.Sprintf("bulk/%05d", i)
		body := []byte(fmt.Sprintf("b%d", i))
		if _, err := r.Env.Backend.PutObject(op.B, key, map[string]string{}, bytes.NewReader(body), int64(len(body))); err != nil {
			r.fail("read.content", "an honest upload is refused (Backend.PutObject) "+r.bctx(), "nil", errCode(err))
		}
		r.M.Put(b, key, model.NewEntity(body, nil, "bulk"))
	}
	r.stats.Mutations++
	r.probe("bucket filled in bulk")
}

func (r *Run) listBucketNames() ([]string, *Resp) {
	resp := r.quiet("GET", "/")
	var x xBuckets
	if resp.Status != 200 || xml.Unmarshal(resp.Body, &x) != nil {
		return nil, resp
	}
	var names []string
	for _, b := range x.Buckets {
		names = append(names, b.Name)
	}
	sort.Strings(names)
	return names, resp
}

func (r *Run) opLsBuckets(op *Op) {
	names, resp := r.listBucketNames()
	r.noPanic(resp, "list buckets")
	var want []string
	for n := range r.M.Buckets {
		want = append(want, n)
	}
	sort.Strings(want)
	if resp.Status != 200 || strings.Join(names, ",") != strings.Join(want, ",") {
		r.fail("bucket.semantics", "ListBuckets differs from the set of created buckets "+r.bctx(), strings.Join(want, ","), resp.String()+" "+strings.Join(names, ","))
	}
	r.ok("bucket.semantics")
}

// ---------------------------------------------------------------- objects

func (r *Run) entityFor(op *Op) *model.Entity {
	body := BodyBytes(r.Plan.Seed, op.Body)
	return model.NewEntity(body, op.Meta, fmt.Sprintf("c%d#%d stream %d", r.curClient, r.curOp, op.Body.Stream))
}

func (r *Run) learnVersion(b *model.Bucket, key string, v *model.Version, resp *Resp, what string) {
	id := resp.Header.Get("x-amz-version-id")
	if b.Versioning == "Enabled" {
		if id == "" || id == "null" {
			r.fail("version.id", what+" in a versioning-enabled bucket returns no version id", "x-amz-version-id", fmt.Sprintf("%q", id))
		}
		if r.allIDs[id] {
			r.fail("version.id", what+" returns a version id that was already issued", "fresh unique id", id)
		}
		r.allIDs[id] = true
		v.ID = id
		k := b.Name + "/" + key
		r.verIDs[k] = append(r.verIDs[k], id)
		r.ok("version.id")
	}
}

// fsKeyConflict tells whether, on a file-system backend, the key is in a
// path relation (ancestor or descendant) with a stored key.  maybe: only with
// keys whose existence is indeterminate after a disk fault.
func (r *Run) fsKeyConflict(bucket, key string) (sure, maybe bool) {
	if !r.Plan.Config.IsFS() {
		return false, false
	}
	b := r.M.Buckets[bucket]
	if b == nil {
		return false, false
	}
	for name, k := range b.Keys {
		if name == key || !(strings.HasPrefix(key, name+"/") || strings.HasPrefix(name, key+"/")) {
			continue
		}
		switch {
		case k.Indet:
			maybe = true
		case k.Live() != nil:
			sure = true
		}
	}
	return sure, maybe && !sure
}

// opPut is an honest upload (PUT, aws-chunked PUT or browser form POST).
func (r *Run) opPut(op *Op) {
	ent := r.entityFor(op)
	var resp *Resp
	sas := op.Form && strings.HasPrefix(op.Status, "sas:")
	var keyBefore *keySnap
	if sas && r.bucket(op.B) != nil {
		keyBefore = r.observeKey(op.B, op.Key)
	}
	if op.Form {
		resp = r.send(r.formRequest(op, ent.Body), op.Faults, r.frag(op))
	} else {
		resp = r.send(r.putRequest(op, target(op.B, op.Key, nil), ent.Body), op.Faults, r.frag(op))
	}
	r.noPanic(resp, "put object")
	if r.faultedUpload(resp, op.B, op.Key, ent, uploadKind(op)) {
		return
	}
	if r.faultedOut(resp, op.B, op.Key) {
		return
	}
	b := r.bucket(op.B)
	if b == nil {
		r.expectNoBucket(resp, "PUT object")
		return
	}
	if sure, maybe := r.fsKeyConflict(op.B, op.Key); sure || maybe {
		// a file-system backend cannot hold a key and another key below it;
		// it refuses the newcomer and both stay as they were
		if resp.OK() {
			if sure {
				r.fail("frame.others", "a file-system backend accepts a key that is a path prefix of a stored key or lies below one "+r.bctx(), "4xx", resp.String())
			}
		} else if resp.Status >= 400 && resp.Status < 500 {
			r.probe("upload refused: key in a path relation with a stored key (fs)")
			r.logf("  -> %s (path conflict)", resp.String())
			return
		} else if sure {
			r.fail("read.content", fmt.Sprintf("an upload whose key conflicts with a stored key is answered with a server error (%s) %s", uploadKind(op), r.bctx()), "4xx", resp.String())
		}
		if !resp.OK() {
			return
		}
	}
	if sas && !resp.OK() && keyBefore != nil && !r.me().faulted {
		// the server may know the field and refuse a value it does not like:
		// then the upload did not happen
		if after := r.observeKey(op.B, op.Key); *after != *keyBefore {
			r.fail("read.content", fmt.Sprintf("a form upload that was refused (success_action_status=%s) changed the stored object %s", op.Status[4:], r.bctx()), keyBefore.String(), after.String())
		}
		r.probe("form upload refused over its success_action_status: nothing stored")
		return
	}
	if !resp.OK() {
		cl := "read.content"
		if len(op.Chunks) > 0 {
			cl = "chunk.decode"
		}
		r.fail(cl, fmt.Sprintf("an honest upload is refused (%s) %s", uploadKind(op), r.bctx()), "2xx", resp.String()+" "+resp.Msg)
	}
	if et := resp.Header.Get("ETag"); et != etagOf(ent) && !(sas && et == "") {
		r.fail("read.content", fmt.Sprintf("upload response ETag is not the quoted MD5 of the uploaded bytes (%s) %s", uploadKind(op), r.bctx()), etagOf(ent), et)
	}
	v := r.M.Put(b, op.Key, ent)
	r.learnVersion(b, op.Key, v, resp, "PUT")
	r.stats.Mutations++
	r.logf("  -> %s", resp.String())
}

func uploadKind(op *Op) string {
	switch {
	case op.Form:
		return "form POST"
	case len(op.Chunks) > 0:
		return "aws-chunked PUT"
	case op.API:
		return "Backend.PutObject"
	}
	return "PUT"
}

func (r *Run) formRequest(op *Op, body []byte) *simnet.Request {
	const boundary = "----simformboundary7MA4YWxkTrZu0gW"
	var b bytes.Buffer
	field := func(name, val string) {
		fmt.Fprintf(&b, "--%s\r\nContent-Disposition: form-data; name=%q\r\n\r\n%s\r\n", boundary, name, val)
	}
	field("key", op.Key)
	if strings.HasPrefix(op.Status, "sas:") {
		// a policy field few clients send
		field("success_action_status", op.Status[4:])
	}
	for _, kv := range sortedMeta(op.Meta) {
		field(kv[0], kv[1])
	}
	fmt.Fprintf(&b, "--%s\r\nContent-Disposition: form-data; name=\"file\"; filename=\"upload.bin\"\r\nContent-Type: application/octet-stream\r\n\r\n", boundary)
	b.Write(body)
	fmt.Fprintf(&b, "\r\n--%s--\r\n", boundary)
	return &simnet.Request{Method: "POST", Target: target(op.B, "", nil),
		Headers:  [][2]string{{"Content-Type", "multipart/form-data; boundary=" + boundary}, {"Content-Length", strconv.Itoa(b.Len())}},
		Body:     b.Bytes(),
		FragSeed: r.Plan.Seed*7919 + int64(r.curClient*1000+r.curOp)}
}

func (r *Run) verQuery(b, key string, ref int) (url.Values, string) {
	if ref == 0 {
		return nil, ""
	}
	id := r.resolveVer(b, key, ref)
	return url.Values{"versionId": {id}}, id
}

func (r *Run) resolveVer(b, key string, ref int) string {
	ids := r.verIDs[b+"/"+key]
	if ref > 0 && len(ids) > 0 {
		return ids[(ref-1)%len(ids)]
	}
	return "3/0000000000000000000000000000UNKNOWNVERSIONAAAAAAAAAAAAAAAAAAAAAAAAAAAAAAAAAAAAAAAAAAAAAAAAAAAAAAAAAAAAAAAAAAAAAAAAAAAAAAAAA==="
}

// opRead is GET or HEAD, optionally of a specific version.
func (r *Run) opRead(op *Op) {
	head := op.K == "head"
	method := "GET"
	if head {
		method = "HEAD"
	}
	q, id := r.verQuery(op.B, op.Key, op.Ver)
	overrides := op.Status == "overrides"
	if overrides {
		// S3's response header overrides: they shape this one answer (if the
		// server knows them at all) and never what is stored
		if q == nil {
			q = url.Values{}
		}
		q.Set("response-content-type", "application/x-overridden")
		q.Set("response-content-disposition", "inline; filename=overridden")
		q.Set("response-cache-control", "no-cache")
		q.Set("response-content-encoding", "identity")
		r.probe("read with response header overrides")
	}
	var resp *Resp
	if op.Status == "since-epoch" {
		// a conditional read whose condition every stored object meets: it was
		// modified after 1970, whatever the server still knows about when
		resp = r.send(&simnet.Request{Method: method, Target: target(op.B, op.Key, q),
			Headers: [][2]string{{"If-Modified-Since", "Thu, 01 Jan 1970 00:00:01 GMT"}}}, op.Faults, r.frag(op))
		r.probe("conditional read (If-Modified-Since the epoch)")
	} else {
		resp = r.simple(method, target(op.B, op.Key, q), op)
	}
	r.noPanic(resp, method+" object")
	r.logf("  -> %s len=%d", resp.String(), len(resp.Body))
	if r.faultedOut(resp, "", "") {
		return
	}
	if resp.WriteFailed {
		return // the client hung up: nothing to judge about the content
	}
	b := r.bucket(op.B)
	if b == nil {
		r.expectNoBucket(resp, method+" object")
		return
	}
	k := b.Keys[op.Key]
	if k != nil && k.Indet {
		return
	}
	if id != "" {
		r.checkVersionRead(resp, b, k, id, head, overrides)
		return
	}
	e := k.Live()
	if e == nil {
		if c := k.Current(); c != nil && c.Marker {
			r.probe("unqualified read of a delete-marked key")
		}
		r.expectNoKey(resp, head, method)
		return
	}
	cl := "read.content"
	if b.Versioning != "" {
		cl = "version.current"
	}
	if overrides {
		e = withoutOverridable(e)
	}
	r.checkEntity(resp, e, head, cl, "")
}

// withoutOverridable is the entity minus the headers a response-* query
// parameter may replace in one answer.
func withoutOverridable(e *model.Entity) *model.Entity {
	cp := *e
	cp.Meta = map[string]string{}
	for k, v := range e.Meta {
		switch strings.ToLower(k) {
		case "content-type", "content-disposition", "cache-control", "content-encoding", "content-language", "expires":
		default:
			cp.Meta[k] = v
		}
	}
	return &cp
}

func (r *Run) checkVersionRead(resp *Resp, b *model.Bucket, k *model.Key, id string, head bool, overrides bool) {
	verb := "GET"
	if head {
		verb = "HEAD"
	}
	if r.Plan.Config.Backend != "mem" || r.Plan.Config.NoVersioning {
		if resp.Status != 501 {
			r.fail("version.read", "a versioned read on a backend without versioning does not answer NotImplemented "+r.bctx(), "501", resp.String())
		}
		return
	}
	v := k.Find(id)
	if v == nil {
		if resp.Status == 404 {
			r.ok("version.read")
			return
		}
		r.fail("version.read", verb+" ?versionId of a deleted or unknown version does not answer 404", "404 NoSuchVersion", resp.String())
	}
	if v.Marker {
		if resp.Status >= 400 && resp.Status < 500 {
			return
		}
		r.fail("version.read", verb+" ?versionId of a delete marker succeeds", "4xx", resp.String())
	}
	r.probe("read of a non-current version by id")
	ent := v.Ent
	if overrides {
		ent = withoutOverridable(ent)
	}
	r.checkEntity(resp, ent, head, "version.read", "?versionId=<known version>")
}

func (r *Run) opDelete(op *Op) {
	q, id := r.verQuery(op.B, op.Key, op.Ver)
	resp := r.simple("DELETE", target(op.B, op.Key, q), op)
	r.noPanic(resp, "delete object")
	r.logf("  -> %s", resp.String())
	if r.faultedOut(resp, op.B, op.Key) {
		return
	}
	b := r.bucket(op.B)
	if b == nil {
		r.expectNoBucket(resp, "DELETE object")
		return
	}
	if id != "" {
		if r.Plan.Config.Backend != "mem" || r.Plan.Config.NoVersioning {
			return
		}
		if !resp.OK() {
			r.fail("version.delete", "deleting a specific version fails", "204", resp.String())
		}
		k := b.Keys[op.Key]
		if v := k.Find(id); v != nil && k.Current() == v && len(k.Vers) > 1 {
			r.probe("delete-version of current with older remaining")
		}
		r.M.DeleteVersion(b, op.Key, id)
		r.stats.Mutations++
		r.ok("version.delete")
		return
	}
	if !resp.OK() {
		r.fail("bucket.semantics", "deleting an object (present or not) fails "+r.bctx(), "204", resp.String())
	}
	m := r.M.Delete(b, op.Key)
	if m != nil && b.Versioning == "Enabled" {
		if resp.Header.Get("x-amz-delete-marker") != "true" {
			r.fail("version.delete", "a plain delete in a versioned bucket does not report a delete marker", "x-amz-delete-marker: true", resp.Header.Get("x-amz-delete-marker"))
		}
		r.learnVersion(b, op.Key, m, resp, "DELETE (marker)")
	}
	r.stats.Mutations++
	r.ok("bucket.semantics")
}

func (r *Run) opDeleteMulti(op *Op) {
	var body bytes.Buffer
	body.WriteString("<Delete>")
	if op.Quiet {
		body.WriteString("<Quiet>true</Quiet>")
	}
	type item struct{ key, id string }
	var items []item
	for _, kr := range op.Keys {
		it := item{key: kr.Key}
		body.WriteString("<Object><Key>")
		xml.EscapeText(&body, []byte(kr.Key))
		body.WriteString("</Key>")
		if kr.Ver != 0 {
			it.id = r.resolveVer(op.B, kr.Key, kr.Ver)
			body.WriteString("<VersionId>")
			xml.EscapeText(&body, []byte(it.id))
			body.WriteString("</VersionId>")
		}
		body.WriteString("</Object>")
		items = append(items, it)
	}
	body.WriteString("</Delete>")
	req := &simnet.Request{Method: "POST", Target: target(op.B, "", url.Values{"delete": {""}}),
		Headers: [][2]string{{"Content-Length", strconv.Itoa(body.Len())}}, Body: body.Bytes(), FragSeed: r.Plan.Seed + int64(r.curOp)}
	resp := r.send(req, op.Faults, r.frag(op))
	r.noPanic(resp, "multi-delete")
	r.logf("  -> %s", resp.String())
	if r.me().faulted {
		var kn []string
		for _, it := range items {
			kn = append(kn, it.key)
		}
		r.faultedOut(resp, op.B, kn...)
		return
	}
	b := r.bucket(op.B)
	if b == nil {
		r.expectNoBucket(resp, "multi-delete")
		return
	}
	var x xDeleteResult
	if resp.Status != 200 || xml.Unmarshal(resp.Body, &x) != nil {
		r.fail("bucket.semantics", "multi-delete fails "+r.bctx(), "200 DeleteResult", resp.String())
	}
	if len(x.Errors) > 0 {
		r.fail("bucket.semantics", "multi-delete reports per-key errors for plain keys "+r.bctx(), "no errors", fmt.Sprintf("%+v", x.Errors))
	}
	if !op.Quiet && len(x.Deleted) != len(items) {
		r.fail("bucket.semantics", "multi-delete does not report every key as deleted "+r.bctx(), fmt.Sprint(len(items)), fmt.Sprint(len(x.Deleted)))
	}
	for _, it := range items {
		if it.id != "" {
			if r.Plan.Config.Backend == "mem" && !r.Plan.Config.NoVersioning {
				r.M.DeleteVersion(b, it.key, it.id)
			}
			continue
		}
		m := r.M.Delete(b, it.key)
		if m != nil && b.Versioning == "Enabled" {
			// the marker's id is not reported by multi-delete; learn it lazily from listings
			m.ID = ""
		}
	}
	r.stats.Mutations++
	r.ok("bucket.semantics")
}

func (r *Run) opCopy(op *Op) {
	hdr := [][2]string{{"X-Amz-Copy-Source", "/" + simnet.EscapePath(op.SrcB) + "/" + url.QueryEscape(op.SrcKey)}}
	hdr = append(hdr, sortedMeta(op.Meta)...)
	req := &simnet.Request{Method: "PUT", Target: target(op.B, op.Key, nil), Headers: hdr}
	resp := r.send(req, op.Faults, r.frag(op))
	r.noPanic(resp, "copy object")
	r.logf("  -> %s", resp.String())
	if r.faultedOut(resp, op.B, op.Key) {
		return
	}
	db := r.bucket(op.B)
	if db == nil {
		r.expectNoBucket(resp, "copy into")
		return
	}
	sb := r.M.Buckets[op.SrcB]
	if sb == nil {
		if resp.Status == 404 {
			r.ok("read.absent")
			return
		}
		r.fail("read.absent", "copy from an absent bucket does not answer 404 "+r.bctx(), "404 NoSuchBucket", resp.String())
	}
	sk := sb.Keys[op.SrcKey]
	dk := db.Keys[op.Key]
	if sk != nil && sk.Indet {
		// the source's content is unknown: follow what the store did
		if resp.OK() {
			g := r.quiet("GET", target(op.B, op.Key, nil))
			if g.Status == 200 {
				r.M.Put(db, op.Key, model.NewEntity(append([]byte(nil), g.Body...), nil, "observed copy of an indeterminate source"))
			}
		}
		_ = dk
		return
	}
	src := sk.Live()
	if src == nil {
		if resp.Status == 404 && resp.Code == "NoSuchKey" {
			r.ok("read.absent")
			return
		}
		r.fail("read.absent", "copy of a missing source key does not answer NoSuchKey "+r.bctx(), "404 NoSuchKey", resp.String())
	}
	if sure, maybe := r.fsKeyConflict(op.B, op.Key); (sure || maybe) && !resp.OK() {
		// the destination lies below a stored key (or above one): a file-system
		// backend refuses it and nothing changes
		if resp.Status >= 400 && resp.Status < 500 {
			r.probe("upload refused: key in a path relation with a stored key (fs)")
			return
		}
		if sure {
			r.fail("copy.semantics", "a copy whose destination conflicts with a stored key is answered with a server error "+r.bctx(), "4xx", resp.String())
		}
		return
	} else if sure && resp.OK() {
		r.fail("frame.others", "a file-system backend accepts a copy onto a key that is a path prefix of a stored key or lies below one "+r.bctx(), "4xx", resp.String())
	}
	var x xCopyResult
	if resp.Status != 200 || xml.Unmarshal(resp.Body, &x) != nil {
		r.fail("copy.semantics", "copy of an existing object fails "+r.bctx(), "200 CopyObjectResult", resp.String())
	}
	if strings.Trim(x.ETag, `"`) != src.MD5 {
		r.fail("copy.semantics", "CopyObjectResult ETag is not the source's MD5 "+r.bctx(), src.MD5, x.ETag)
	}
	if op.SrcB == op.B && op.SrcKey == op.Key {
		r.probe("self-copy")
	}
	// "a copy leaves the destination equal to the source": the bytes, and every
	// header stored with the source unless the copy request itself names it
	ent := &model.Entity{Body: src.Body, MD5: src.MD5, Tag: "copy of " + src.Tag}
	if len(src.Meta) > 0 || len(op.Meta) > 0 {
		ent.Meta = map[string]string{}
		for k, v := range src.Meta {
			ent.Meta[k] = v
		}
		for k, v := range op.Meta {
			ent.Meta[k] = v
		}
	}
	v := r.M.Put(db, op.Key, ent)
	if db.Versioning == "Enabled" {
		// gofakes3 does not report the new version id on copy; leave it unknown
		_ = v
	}
	r.stats.Mutations++
	r.ok("copy.semantics")
	// source unchanged, destination equal to the source
	if op.SrcB != op.B || op.SrcKey != op.Key {
		r.checkEntity(r.quiet("GET", target(op.SrcB, op.SrcKey, nil)), src, false, "read.content", "(source after copy)")
	}
	r.checkEntity(r.quiet("GET", target(op.B, op.Key, nil)), ent, false, "read.content", "(destination after copy)")
}

func (r *Run) opSetVersioning(op *Op) {
	body := fmt.Sprintf(`<VersioningConfiguration xmlns="http://s3.amazonaws.com/doc/2006-03-01/"><Status>%s</Status></VersioningConfiguration>`, op.Status)
	switch op.Status {
	case "nostatus": // well-formed, and says nothing about the status
		body = `<VersioningConfiguration xmlns="http://s3.amazonaws.com/doc/2006-03-01/"><MfaDelete>Disabled</MfaDelete></VersioningConfiguration>`
	case "empty":
		body = `<VersioningConfiguration xmlns="http://s3.amazonaws.com/doc/2006-03-01/"/>`
	}
	req := &simnet.Request{Method: "PUT", Target: target(op.B, "", url.Values{"versioning": {""}}),
		Headers: [][2]string{{"Content-Length", strconv.Itoa(len(body))}}, Body: []byte(body)}
	resp := r.send(req, op.Faults, r.frag(op))
	r.noPanic(resp, "put versioning")
	r.logf("  -> %s", resp.String())
	b := r.bucket(op.B)
	if b == nil {
		r.expectNoBucket(resp, "PUT versioning")
		return
	}
	if r.Plan.Config.Backend != "mem" || r.Plan.Config.NoVersioning {
		if op.Status == "Enabled" && resp.Status != 501 {
			r.fail("version.id", "enabling versioning on a backend without versioning does not answer NotImplemented "+r.bctx(), "501", resp.String())
		}
		return
	}
	if op.Status == "nostatus" || op.Status == "empty" {
		// The server may refuse such a document, leave the state alone or
		// suspend: the state it reports afterwards is the one it has to behave
		// as.  What it may not do is forget that the bucket holds versions: a
		// bucket that has been versioned and reports no status is held to the
		// promise made for suspension (nothing created while versioning was
		// enabled is removed or altered by later uploads and deletes).
		if !resp.OK() {
			if resp.Status >= 500 {
				r.fail("version.id", "a versioning configuration without a status is answered with a server error "+r.bctx(), "2xx or 4xx", resp.String())
			}
			return
		}
		g := r.quiet("GET", target(op.B, "", url.Values{"versioning": {""}}))
		var vc struct {
			Status string `xml:"Status"`
		}
		if g.Status != 200 || xml.Unmarshal(g.Body, &vc) != nil {
			r.fail("version.id", "the versioning state cannot be read "+r.bctx(), "200", g.String())
		}
		switch {
		case vc.Status == "Enabled" || vc.Status == "Suspended":
			b.Versioning = vc.Status
		case b.Versioning != "":
			b.Versioning = "Suspended"
		}
		r.probe("versioning configuration without a status")
		r.stats.Mutations++
		return
	}
	if !resp.OK() {
		r.fail("version.id", "setting the versioning state fails", "200", resp.String())
	}
	switch op.Status {
	case "Enabled":
		b.Versioning = "Enabled"
	case "Suspended":
		if b.Versioning != "" {
			b.Versioning = "Suspended"
		}
	}
	r.stats.Mutations++
}

func (r *Run) opRestart(op *Op) {
	if !r.Plan.Config.Persistent() {
		return
	}
	before := r.snapshotStore()
	if err := r.Env.Restart(); err != nil {
		r.fail("crash.opens", "reopening the store after a clean close fails "+r.bctx(), "opens", err.Error())
	}
	r.installHooks()
	// pending multipart uploads live in memory only
	for _, u := range r.M.Uploads {
		u.Gone = true
	}
	after := r.snapshotStore()
	for _, sn := range []*storeSnap{before, after} {
		for _, bs := range sn.Buckets {
			bs.Uploads = nil // pending multipart uploads are held in memory only and are not part of the promise
		}
	}
	if d := diffSnap(before, after); d != "" {
		r.fail("restart.equal", "state after close+reopen differs from the state before: "+snapSig(d)+" "+r.bctx(), "identical buckets, keys, bodies, sizes, ETags, metadata", d)
	}
	r.ok("restart.equal")
	r.probe("clean restart")
	r.fullCheck("restart.equal")
}

// ---------------------------------------------------------------- listings

func listQuery(op *Op, marker string, hasMarker bool, token string) url.Values {
	q := url.Values{}
	if op.Prefix != "" {
		q.Set("prefix", op.Prefix)
	}
	if op.Delim != "" {
		q.Set("delimiter", op.Delim)
	}
	if op.Max > 0 {
		q.Set("max-keys", strconv.Itoa(op.Max))
	}
	if op.V2 {
		q.Set("list-type", "2")
		if token != "" {
			q.Set("continuation-token", token)
			if hasMarker && op.Sticky {
				q.Set("start-after", marker)
			}
		} else if hasMarker {
			q.Set("start-after", marker)
		}
	} else if hasMarker {
		q.Set("marker", marker)
	}
	return q
}

func (r *Run) doList(op *Op, q url.Values) (*xListResult, *Resp) {
	resp := r.simple("GET", target(op.B, "", q), op)
	r.noPanic(resp, "list objects")
	if resp.Status != 200 {
		return nil, resp
	}
	var x xListResult
	if err := xml.Unmarshal(resp.Body, &x); err != nil {
		r.fail("list.exact", "ListObjects answer is not a ListBucketResult document "+r.bctx(), "ListBucketResult", trunc(string(resp.Body), 200))
	}
	return &x, resp
}

type listing struct {
	Contents []model.ListEntry
	Prefixes []string
}

func (l listing) String() string {
	var b strings.Builder
	for _, c := range l.Contents {
		fmt.Fprintf(&b, "%q(%d,%s) ", c.Key, c.Size, strings.Trim(c.ETag, `"`)[:min(6, len(strings.Trim(c.ETag, `"`)))])
	}
	b.WriteString("| prefixes:")
	for _, p := range l.Prefixes {
		fmt.Fprintf(&b, " %q", p)
	}
	return b.String()
}

func fromX(x *xListResult) listing {
	var l listing
	for _, c := range x.Contents {
		l.Contents = append(l.Contents, model.ListEntry{Key: c.Key, Size: c.Size, ETag: c.ETag})
	}
	for _, p := range x.CommonPrefixes {
		l.Prefixes = append(l.Prefixes, p.Prefix)
	}
	return l
}

// indetFilter removes indeterminate keys (and prefixes covering them) from
// both sides of a listing comparison.
func (r *Run) indetKeys(b *model.Bucket) []string {
	var out []string
	for n, k := range b.Keys {
		if k.Indet {
			out = append(out, n)
		}
	}
	sort.Strings(out)
	return out
}

func dropIndet(l listing, indet []string, prefix, delim string) listing {
	if len(indet) == 0 {
		return l
	}
	_, ip := model.Group(indet, prefix, delim)
	bad := map[string]bool{}
	for _, k := range indet {
		bad[k] = true
	}
	for _, p := range ip {
		bad[p] = true
	}
	var out listing
	for _, c := range l.Contents {
		if !bad[c.Key] {
			out.Contents = append(out.Contents, c)
		}
	}
	for _, p := range l.Prefixes {
		if !bad[p] {
			out.Prefixes = append(out.Prefixes, p)
		}
	}
	return out
}

func (r *Run) expectedListing(b *model.Bucket, prefix, delim string) listing {
	c, p := b.List(prefix, delim)
	return listing{c, p}
}

// listDiff explains the first difference between an observed and the
// expected listing in property terms.
func listDiff(got, want listing) string {
	gk := map[string]model.ListEntry{}
	for i, c := range got.Contents {
		if _, dup := gk[c.Key]; dup {
			return "a key is listed twice"
		}
		gk[c.Key] = c
		if i > 0 && got.Contents[i-1].Key >= c.Key {
			return "Contents are not in ascending UTF-8 byte order"
		}
	}
	wk := map[string]model.ListEntry{}
	for _, c := range want.Contents {
		wk[c.Key] = c
	}
	for _, c := range want.Contents {
		g, ok := gk[c.Key]
		if !ok {
			return "a live key is missing from Contents"
		}
		if g.Size != c.Size {
			return "a listed Size differs from the stored object's size"
		}
		if g.ETag != c.ETag {
			return "a listed ETag differs from the stored object's ETag"
		}
	}
	for _, c := range got.Contents {
		if _, ok := wk[c.Key]; !ok {
			return "Contents holds a key that is not a live matching key"
		}
	}
	gp := map[string]bool{}
	for _, p := range got.Prefixes {
		if gp[p] {
			return "a CommonPrefix is reported twice"
		}
		gp[p] = true // the order among CommonPrefixes is not demanded by the property
	}
	wp := map[string]bool{}
	for _, p := range want.Prefixes {
		wp[p] = true
		if !gp[p] {
			return "a CommonPrefix is missing"
		}
	}
	for _, p := range got.Prefixes {
		if !wp[p] {
			return "a CommonPrefix is reported that no live key produces"
		}
	}
	return ""
}

func (r *Run) opList(op *Op) {
	q := listQuery(op, op.Marker, op.HasMk, "")
	x, resp := r.doList(op, q)
	b := r.bucket(op.B)
	if b == nil {
		r.expectNoBucket(resp, "ListObjects")
		return
	}
	paged := op.Max > 0 || (op.HasMk && op.Marker != "")
	if !paged && r.refusedByConfig(resp) {
		return
	}
	if paged && !r.Plan.Config.Paginates() {
		r.checkFallback(op, x, resp, b)
		return
	}
	if x == nil {
		r.serverFailure("list.exact", "ListObjects fails "+r.bctx(), "200", resp.String()+" "+resp.Msg)
	}
	if !paged {
		// no max-keys means the protocol's page size: a paginating backend
		// hands out the first page of a bucket that holds more
		w := r.expectedListing(b, op.Prefix, op.Delim)
		paged = r.Plan.Config.Paginates() && len(w.Contents)+len(w.Prefixes) > protocolPage
	}
	if paged {
		r.checkPage(op, x, b, op.Marker, op.HasMk, true)
		return
	}
	indet := r.indetKeys(b)
	got := dropIndet(fromX(x), indet, op.Prefix, op.Delim)
	want := dropIndet(r.expectedListing(b, op.Prefix, op.Delim), indet, op.Prefix, op.Delim)
	if d := listDiff(got, want); d != "" {
		r.fail("list.exact", fmt.Sprintf("%s (delimiter=%q) %s", d, op.Delim, r.bctx()), want.String(), got.String())
	}
	if x.IsTruncated {
		r.fail("page.walk", "an unpaginated listing reports IsTruncated=true "+r.bctx(), "false", "true")
	}
	r.ok("list.exact")
	r.logf("  -> %d contents %d prefixes", len(got.Contents), len(got.Prefixes))
}

// refusedByConfig: a non-paginating backend configured with the
// unimplemented-page error refuses every listing, because an absent max-keys
// means the default page size of 1000; the property allows the refusal.
func (r *Run) refusedByConfig(resp *Resp) bool {
	return r.Plan.Config.PageErr && !r.Plan.Config.Paginates() && resp.Status == 501 && resp.Code == "NotImplemented"
}

// checkFallback judges a paginated request against a non-paginating backend.
func (r *Run) checkFallback(op *Op, x *xListResult, resp *Resp, b *model.Bucket) {
	if r.Plan.Config.PageErr {
		if resp.Status == 501 && resp.Code == "NotImplemented" {
			r.ok("page.fallback")
			return
		}
		r.fail("page.fallback", "a paginated listing on a non-paginating backend configured to refuse does not answer NotImplemented "+r.bctx(), "501 NotImplemented", resp.String())
	}
	if x == nil {
		r.fail("page.fallback", "a paginated listing on a non-paginating backend fails "+r.bctx(), "200 with the complete listing", resp.String())
	}
	indet := r.indetKeys(b)
	got := dropIndet(fromX(x), indet, op.Prefix, op.Delim)
	want := dropIndet(r.expectedListing(b, op.Prefix, op.Delim), indet, op.Prefix, op.Delim)
	if d := listDiff(got, want); d != "" {
		r.setViol("list.exact", fmt.Sprintf("%s (delimiter=%q) %s", d, op.Delim, r.bctx()), want.String(), got.String())
		if tagged("list.exact", r.Prop) {
			panic(stopRun{})
		}
		r.fail("page.fallback", "the fallback answer of a non-paginating backend is not the complete listing "+r.bctx(), want.String(), got.String())
	}
	if x.IsTruncated {
		r.fail("page.fallback", "the fallback answer of a non-paginating backend reports IsTruncated=true "+r.bctx(), "false", "true")
	}
	r.ok("page.fallback")
}

// checkPage judges one page fetched with a client-chosen marker: every entry
// is > marker, the page is a prefix of the expected remainder (modulo a
// common prefix that also covers keys <= marker), size <= max.
func (r *Run) checkPage(op *Op, x *xListResult, b *model.Bucket, marker string, hasMarker bool, clientChosen bool) {
	got := fromX(x)
	max := pageSize(op)
	if len(got.Contents)+len(got.Prefixes) > max {
		r.fail("page.walk", "a page holds more entries than max-keys "+r.bctx(), fmt.Sprintf("<= %d", max), fmt.Sprint(len(got.Contents)+len(got.Prefixes)))
	}
	// expected remainder after the marker.  A common prefix that is <= the
	// marker, or that also rolls up keys <= the marker, may or may not be
	// reported again (DESIGN appendix G).
	var after, upto []string
	for _, k := range b.LiveKeys() {
		if !hasMarker || k > marker {
			after = append(after, k)
		} else {
			upto = append(upto, k)
		}
	}
	ck, pk := model.Group(after, op.Prefix, op.Delim)
	_, pkBefore := model.Group(upto, op.Prefix, op.Delim)
	optional := map[string]bool{}
	for _, p := range pkBefore {
		optional[p] = true
	}
	type ent struct {
		name   string
		prefix bool
	}
	var want []ent
	for _, k := range ck {
		want = append(want, ent{k, false})
	}
	for _, p := range pk {
		if hasMarker && p <= marker {
			optional[p] = true
		}
		want = append(want, ent{p, true})
	}
	sort.Slice(want, func(i, j int) bool { return want[i].name < want[j].name })
	var gotE []ent
	for _, c := range got.Contents {
		gotE = append(gotE, ent{c.Key, false})
	}
	for _, p := range got.Prefixes {
		gotE = append(gotE, ent{p, true})
	}
	sort.Slice(gotE, func(i, j int) bool { return gotE[i].name < gotE[j].name })
	wi := 0
	for _, g := range gotE {
		if !g.prefix && hasMarker && g.name <= marker {
			r.fail("page.walk", "a page returns a key that is not after the marker "+r.bctx(), "> "+marker, g.name)
		}
		for wi < len(want) && want[wi] != g && want[wi].prefix && optional[want[wi].name] {
			wi++ // an optional prefix the server chose not to repeat
		}
		if wi >= len(want) || want[wi] != g {
			r.fail("page.walk", "a page after a client-chosen marker skips, repeats or invents an entry "+r.bctx(), fmt.Sprint(want), fmt.Sprint(gotE))
		}
		wi++
	}
	remaining := 0
	for _, w := range want[wi:] {
		if !(w.prefix && optional[w.name]) {
			remaining++
		}
	}
	if len(gotE) < max && remaining > 0 {
		r.fail("page.walk", "a page after a client-chosen marker is shorter than both max-keys and the remainder "+r.bctx(), shortList(fmt.Sprint(want)), shortList(fmt.Sprint(gotE)))
	}
	if !x.IsTruncated && remaining > 0 {
		r.fail("page.walk", fmt.Sprintf("IsTruncated=false although %d entries remain %s", remaining, r.bctx()), "true", "false")
	}
	r.ok("page.walk")
}

// protocolPage is S3's page size: what an absent max-keys means and the most
// a larger one obtains (the property names the clamp as part of the mechanism).
const protocolPage = 1000

func pageSize(op *Op) int {
	if op.Max <= 0 || op.Max > protocolPage {
		return protocolPage
	}
	return op.Max
}

func shortList(s string) string {
	if len(s) > 600 {
		return s[:300] + " ... " + s[len(s)-300:]
	}
	return s
}

// opWalk is a paginated walk following the continuation the server returns.
func (r *Run) opWalk(op *Op) {
	b := r.bucket(op.B)
	if b == nil {
		return
	}
	if !r.Plan.Config.Paginates() {
		x, resp := r.doList(op, listQuery(op, "", false, ""))
		r.checkFallback(op, x, resp, b)
		return
	}
	want := r.expectedListing(b, op.Prefix, op.Delim)
	total := len(want.Contents) + len(want.Prefixes)
	var all listing
	optional := map[string]bool{} // prefixes a walk from a client-chosen marker may or may not report
	marker, has, token := op.Marker, op.HasMk, ""
	lastName := ""
	if has {
		// client-chosen start: expected remainder only
		var live []string
		for _, k := range b.LiveKeys() {
			if k > marker {
				live = append(live, k)
			}
		}
		ck, pk := model.Group(live, op.Prefix, op.Delim)
		want = listing{}
		for _, k := range ck {
			e := b.Keys[k].Live()
			want.Contents = append(want.Contents, model.ListEntry{Key: k, Size: int64(len(e.Body)), ETag: etagOf(e)})
		}
		want.Prefixes = pk
		total = len(want.Contents) + len(want.Prefixes)
		r.probe("walk from a client-chosen marker")
		var upto []string
		for _, k := range b.LiveKeys() {
			if k <= marker {
				upto = append(upto, k)
			}
		}
		_, pb := model.Group(upto, op.Prefix, op.Delim)
		for _, p := range pb {
			optional[p] = true
		}
		for _, p := range pk {
			if p <= marker {
				optional[p] = true
			}
		}
	}
	pages := 0
	for {
		pages++
		if pages > total+3 {
			r.fail("page.walk", "a paginated walk does not terminate "+r.bctx(), fmt.Sprintf("<= %d pages", total+2), fmt.Sprintf("> %d", total+3))
		}
		x, resp := r.doList(op, listQuery(op, marker, has, token))
		if x == nil {
			r.fail("page.walk", "a page request fails "+r.bctx(), "200", resp.String()+" "+resp.Msg)
		}
		pg := fromX(x)
		n := len(pg.Contents) + len(pg.Prefixes)
		if n > pageSize(op) {
			r.fail("page.walk", "a page holds more entries than max-keys "+r.bctx(), fmt.Sprintf("<= %d", pageSize(op)), fmt.Sprint(n))
		}
		// order across pages
		var names []string
		for _, c := range pg.Contents {
			names = append(names, c.Key)
		}
		names = append(names, pg.Prefixes...)
		sort.Strings(names)
		for _, nm := range names {
			if lastName != "" && nm <= lastName {
				what := "a key"
				if op.Delim != "" && strings.HasSuffix(nm, op.Delim) {
					what = "a common prefix"
					r.probe("page boundary inside a common prefix")
				}
				r.fail("page.walk", fmt.Sprintf("%s is repeated or out of order across pages %s", what, r.bctx()), "> "+lastName, nm)
			}
			lastName = nm
		}
		all.Contents = append(all.Contents, pg.Contents...)
		all.Prefixes = append(all.Prefixes, pg.Prefixes...)
		if !x.IsTruncated {
			break
		}
		if n == 0 {
			r.fail("page.walk", "a truncated page is empty "+r.bctx(), ">= 1 entry", "0")
		}
		// follow the server's continuation
		if op.V2 {
			if x.NextContinuationToken == "" {
				r.fail("page.walk", "a truncated V2 page carries no NextContinuationToken "+r.bctx(), "token", "none")
			}
			token = x.NextContinuationToken
		} else {
			has = true
			if x.NextMarker != "" {
				marker = x.NextMarker
			} else if len(pg.Contents) > 0 {
				marker = pg.Contents[len(pg.Contents)-1].Key
			} else {
				r.fail("page.walk", "a truncated V1 page has neither NextMarker nor a last key "+r.bctx(), "continuation", "none")
			}
		}
	}
	sort.Slice(all.Contents, func(i, j int) bool { return all.Contents[i].Key < all.Contents[j].Key })
	sort.Strings(all.Prefixes)
	if len(optional) > 0 {
		gotP := map[string]bool{}
		for _, p := range all.Prefixes {
			gotP[p] = true
		}
		var keep []string
		for _, p := range want.Prefixes {
			if gotP[p] || !optional[p] {
				keep = append(keep, p)
			}
		}
		want.Prefixes = keep
	}
	if d := listDiff(all, want); d != "" {
		r.fail("page.walk", fmt.Sprintf("concatenated pages differ from the unpaginated listing: %s (delimiter=%q) %s", d, op.Delim, r.bctx()), want.String(), all.String())
	}
	r.ok("page.walk")
	if pages > 1 {
		r.probe("multi-page walk")
	}
	r.logf("  -> %d pages %d entries", pages, total)
}

// ---------------------------------------------------------------- full check

// fullCheck compares every bucket, key, body and listing with the model.
func (r *Run) fullCheck(clause string) {
	names, resp := r.listBucketNames()
	r.noPanic(resp, "list buckets")
	var want []string
	for n := range r.M.Buckets {
		want = append(want, n)
	}
	sort.Strings(want)
	if strings.Join(names, ",") != strings.Join(want, ",") {
		cl := "bucket.semantics"
		if clause == "restart.equal" || clause == "crash.acked" {
			cl = clause
		}
		r.fail(cl, "the set of buckets differs from the created buckets "+r.bctx(), strings.Join(want, ","), strings.Join(names, ","))
	}
	for _, bn := range want {
		b := r.M.Buckets[bn]
		var keys []string
		for k := range b.Keys {
			keys = append(keys, k)
		}
		sort.Strings(keys)
		for _, k := range keys {
			mk := b.Keys[k]
			if mk.Indet {
				continue
			}
			g := r.quiet("GET", target(bn, k, nil))
			r.noPanic(g, "GET object")
			if e := mk.Live(); e != nil {
				r.checkEntity(g, e, false, clause, "(full-store check)")
			} else if g.Status != 404 {
				r.fail(clause, "a deleted key is readable (full-store check) "+r.bctx(), "404", g.String())
			}
		}
		if r.Plan.Config.RawKeys {
			continue // keys that are not valid UTF-8 cannot be told apart in an XML listing
		}
		x, lresp := r.doList(&Op{B: bn}, nil)
		if r.refusedByConfig(lresp) {
			continue
		}
		if x == nil {
			r.serverFailure(clause, "listing a bucket fails (full-store check) "+r.bctx(), "200", lresp.String())
		}
		// a bucket of more than one protocol page on a paginating backend
		for pages := 0; x.IsTruncated && len(x.Contents) > 0 && r.Plan.Config.Paginates() && pages < len(keys)/protocolPage+1; pages++ {
			q := url.Values{}
			q.Set("marker", x.Contents[len(x.Contents)-1].Key)
			more, mresp := r.doList(&Op{B: bn}, q)
			if more == nil {
				r.serverFailure(clause, "listing a bucket fails (full-store check) "+r.bctx(), "200", mresp.String())
			}
			more.Contents = append(x.Contents, more.Contents...)
			x = more
		}
		indet := r.indetKeys(b)
		got := dropIndet(fromX(x), indet, "", "")
		wl := dropIndet(r.expectedListing(b, "", ""), indet, "", "")
		if d := listDiff(got, wl); d != "" {
			cl := "list.exact"
			if clause != "read.content" {
				cl = clause
			}
			r.fail(cl, fmt.Sprintf("%s (delimiter=\"\") %s", d, r.bctx()), wl.String(), got.String())
		}
	}
	r.ok(clause)
}

func (r *Run) me() *clientState {
	id := simrt.Cur()
	if id < 0 || id >= len(r.cs) {
		return r.cs0
	}
	return r.cs[id]
}
