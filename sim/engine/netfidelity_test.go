package engine

import (
	"bufio"
	"bytes"
	"io"
	"net"
	"net/http"
	"net/http/httptest"
	"sort"
	"strconv"
	"strings"
	"testing"
	"time"

	"verif/sim/simnet"
)

// TestSimnetAgainstRealServer sends the same wire bytes through simnet and
// through a real net/http server on a loopback socket, both in front of
// identically constructed gofakes3 instances, and requires the same status,
// body and entity headers for every request of a corpus drawn from the C09
// grammar (hostile requests included).
func TestSimnetAgainstRealServer(t *testing.T) {
	total, compared := 0, 0
	for seed := int64(1); seed <= 40; seed++ {
		plan := GenPlan("C09", seed, "quick", nil)
		cfg := plan.Config
		cfg.Backend, cfg.FS, cfg.HostBucket = "mem", "", false
		a, err := NewEnv(cfg, seed, t.TempDir())
		if err != nil {
			t.Fatal(err)
		}
		b, err := NewEnv(cfg, seed, t.TempDir())
		if err != nil {
			t.Fatal(err)
		}
		for _, bk := range cfg.Buckets {
			a.Backend.CreateBucket(bk)
			b.Backend.CreateBucket(bk)
		}
		srv := httptest.NewServer(b.Handler)
		for _, client := range plan.Clients {
			for _, op := range client {
				if op.Raw == nil || strings.Contains(op.Raw.Target, "{") || strings.Contains(op.Raw.Body, "{") {
					continue
				}
				skip := false
				var hdr [][2]string
				for _, h := range op.Raw.Headers {
					v := h[1]
					if v == "{len}" {
						v = itoa(len(op.Raw.Body))
					}
					if strings.Contains(v, "{") || strings.EqualFold(h[0], "x-amz-date") {
						skip = true
					}
					hdr = append(hdr, [2]string{h[0], v})
				}
				if skip {
					continue
				}
				total++
				req := &simnet.Request{Method: op.Raw.Method, Target: op.Raw.Target, Headers: hdr, Body: []byte(op.Raw.Body), AbortAfter: -1}
				sresp := simnet.Do(a.Handler, req)
				wire, _ := req.Wire()
				conn, err := net.Dial("tcp", strings.TrimPrefix(srv.URL, "http://"))
				if err != nil {
					t.Fatal(err)
				}
				conn.SetDeadline(time.Now().Add(5 * time.Second))
				conn.Write(wire)
				if c, ok := conn.(*net.TCPConn); ok {
					c.CloseWrite()
				}
				rresp, err := http.ReadResponse(bufio.NewReader(conn), &http.Request{Method: op.Raw.Method})
				if err != nil {
					conn.Close()
					if sresp.ParseErr != nil || sresp.Panic != nil {
						continue // both sides refused / the real server's recover closed the connection
					}
					t.Fatalf("seed %d %s %s: real server gave no response (%v), simnet %d", seed, op.Raw.Method, op.Raw.Target, err, sresp.Status)
				}
				body, _ := io.ReadAll(rresp.Body)
				conn.Close()
				if sresp.ParseErr != nil {
					if rresp.StatusCode != 400 {
						t.Fatalf("seed %d %s %s: simnet could not parse the request, real server answered %d", seed, op.Raw.Method, op.Raw.Target, rresp.StatusCode)
					}
					continue
				}
				if sresp.Panic != nil {
					continue
				}
				compared++
				if sresp.Status != rresp.StatusCode {
					t.Fatalf("seed %d %s %s: status simnet %d real %d", seed, op.Raw.Method, op.Raw.Target, sresp.Status, rresp.StatusCode)
				}
				sb, rb := stripIDs(sresp.Body), stripIDs(body)
				if bytes.Contains(sb, []byte("<ListAllMyBucketsResult")) {
					sb, rb = sortLines(sb), sortLines(rb) // bucket order is Go map order on the memory backend
				}
				if op.Raw.Method != "HEAD" && !bytes.Equal(sb, rb) {
					t.Fatalf("seed %d %s %s: body differs\nsimnet: %q\nreal:   %q", seed, op.Raw.Method, op.Raw.Target, sb, rb)
				}
				for _, h := range []string{"ETag", "X-Amz-Version-Id", "X-Amz-Delete-Marker", "Content-Range", "Accept-Ranges"} {
					if sresp.Header.Get(h) != rresp.Header.Get(h) {
						t.Fatalf("seed %d %s %s: header %s simnet %q real %q", seed, op.Raw.Method, op.Raw.Target, h, sresp.Header.Get(h), rresp.Header.Get(h))
					}
				}
			}
		}
		srv.Close()
	}
	t.Logf("%d requests, %d compared field by field", total, compared)
	if compared < 500 {
		t.Fatalf("corpus too small: %d", compared)
	}
}

func itoa(n int) string { return strconv.Itoa(n) }

func sortLines(b []byte) []byte {
	l := strings.Split(string(b), "\n")
	sort.Strings(l)
	return []byte(strings.Join(l, "\n"))
}

// stripIDs removes request ids and timestamps, which differ between two servers.
func stripIDs(b []byte) []byte {
	s := string(b)
	for _, tag := range []string{"RequestId", "HostId", "LastModified", "Initiated", "CreationDate", "ServerTime"} {
		for {
			i := strings.Index(s, "<"+tag+">")
			if i < 0 {
				break
			}
			j := strings.Index(s[i:], "</"+tag+">")
			if j < 0 {
				break
			}
			s = s[:i] + s[i+j+len(tag)+3:]
		}
	}
	return []byte(s)
}
