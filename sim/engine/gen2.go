package engine

import (
	"fmt"
	"net/url"
	"strings"

	"simrt"
	"verif/sim/simnet"
)

// ---------------------------------------------------------------- C07

// genC07Snapshot: a listing is one operation, so what it shows of different
// keys belongs to one instant.  Two keys at the two ends of the bucket, in some
// runs with more than a thousand filler objects between them (which a listing
// with a delimiter walks over while it holds, or does not hold, its lock);
// writers that change first one key and then the other; the whole run is one
// partition of a two-register model.
func (g *G) genC07Snapshot(p *Plan) {
	c := &p.Config
	c.Mode = "lin"
	c.Backend = g.pick("mem", "mem", "mem", "bolt", "multifs")
	if c.IsFS() {
		c.FS = "simfs"
	}
	c.ClockStepMs = g.pick2(1, 7)
	c.BoltMmap = c.Backend == "bolt"
	b := bucketNames[0]
	c.Buckets = []string{b}
	c.LinSnap = true
	c.LinKeys = []string{"a-first", "z-last"}
	c.LinFill = g.pick2(0, 3, 1100, 1100, 2100)
	if c.Backend != "mem" && c.LinFill > 3 {
		c.LinFill = g.pick2(0, 3, 40)
	}
	keys := []KeyRef{{Key: c.LinKeys[0]}, {Key: c.LinKeys[1]}}
	nclients := g.n(2, 3)
	for ci := 0; ci < nclients; ci++ {
		var ops []Op
		for i, n := 0, g.n(2, 6); i < n; i++ {
			k := c.LinKeys[g.rng.Intn(2)]
			switch r := g.rng.Intn(100); {
			case r < 35:
				// change one key, then the other
				ops = append(ops, Op{K: "put", B: b, Key: k, Body: g.body(8 + g.rng.Intn(60))})
				if g.chance(0.6) {
					other := c.LinKeys[0]
					if k == other {
						other = c.LinKeys[1]
					}
					ops = append(ops, Op{K: "put", B: b, Key: other, Body: g.body(8 + g.rng.Intn(60))})
				}
			case r < 45:
				ops = append(ops, Op{K: "del", B: b, Key: k})
			case r < 55:
				ops = append(ops, Op{K: "get", B: b, Key: k})
			case r < 80 || c.Backend != "mem":
				ops = append(ops, Op{K: "list", B: b, Keys: keys, Delim: "/"})
			default:
				ops = append(ops, Op{K: "lsversions", B: b, Keys: keys, Delim: "/"})
			}
		}
		p.Clients = append(p.Clients, ops)
	}
	c.Policy = g.policy(nclients)
}

func (g *G) genC07(p *Plan) {
	if g.chance(0.04) {
		g.genC07Snapshot(p)
		return
	}
	c := &p.Config
	c.Mode = "lin"
	c.Backend = g.pick("mem", "mem", "bolt", "multifs", "multifs", "singlefs")
	if c.IsFS() {
		c.FS = g.pick("simfs", "simfs", "simfs", "osdir", "osdir", "memmap")
		c.MtimeRes = g.pick("ns", "ns", "s")
	}
	c.ClockStepMs = g.pick2(1, 7, 400)
	c.BoltMmap = c.Backend == "bolt" && g.chance(0.85)
	b := bucketNames[0]
	c.Buckets = []string{b}
	if c.Backend != "singlefs" && g.chance(0.15) {
		c.AutoBucket = true
		c.Buckets = nil
	}
	c.Versioned = c.Backend == "mem" && c.Buckets != nil && g.chance(0.3)
	nclients := g.n(2, 4)
	if g.thorough() && g.chance(0.25) {
		nclients = g.n(5, 16)
	}
	keys := [][]string{{"k1"}, {"k1", "k2"}, {"d/x", "d/y", "top"}, {"a/b/c", "a/e"}}[g.rng.Intn(4)]
	// version churn: three or more clients create, delete by id and batch-delete
	// by id the versions of one key (a key that keeps going from one version to
	// none and back is where a stale pointer to its object shows)
	churn := c.Versioned && g.chance(0.5)
	if churn {
		keys = []string{"k1"}
		if nclients < 3 {
			nclients = 3
		}
	}
	key := func() string { return keys[g.rng.Intn(len(keys))] }
	nup := 0
	if c.Buckets != nil && g.chance(0.35) {
		nup = g.n(1, 2)
		for i := 0; i < nup; i++ {
			c.LinUploads = append(c.LinUploads, [2]string{b, key()})
		}
	}
	// disk errors under completes (the only multipart request that touches the
	// disk): the uploads get keys of their own, which a refused complete may
	// leave without their previous content
	faultyMPU := c.IsFS() && c.FS == "simfs" && nup > 0 && g.chance(0.5)
	if faultyMPU {
		for i := range c.LinUploads {
			c.LinUploads[i][1] = fmt.Sprintf("up-only-%d", i)
		}
	}
	if c.IsFS() && nup == 0 && g.chance(0.2) {
		// a key below another key: a file-system backend holds one of the two
		// at a time and refuses the newcomer; whichever is acknowledged stays
		// readable
		keys = append(append([]string{}, keys...), keys[len(keys)-1]+"/part")
		c.PathKeys = true
	}
	var allKeys []KeyRef
	for _, k := range keys {
		allKeys = append(allKeys, KeyRef{Key: k})
	}
	big := g.chance(0.35)
	chunkedRun := g.chance(0.2)
	// some runs delete and re-create the (momentarily empty) bucket under the other clients
	// some runs of a never-versioned bucket switch versioning on under the
	// other clients' version listings
	c.LinSetVer = c.Backend == "mem" && c.Buckets != nil && !c.Versioned && g.chance(0.3)
	setverAt := [2]int{g.rng.Intn(nclients), g.n(0, 4)}
	recycler := -1
	if c.Buckets != nil && !c.Versioned && !c.LinSetVer && nup == 0 && c.Backend != "singlefs" && g.chance(0.3) {
		recycler = g.rng.Intn(nclients)
	}
	for ci := 0; ci < nclients; ci++ {
		role := g.pick("plain", "plain", "slow-uploader", "slow-reader", "retrier")
		var ops []Op
		nops := g.n(3, 12)
		if nclients > 6 {
			nops = g.n(2, 5)
		}
		for i := 0; i < nops; i++ {
			var op Op
			r := g.rng.Intn(100)
			if faultyMPU && g.chance(0.4) {
				r = 99
			}
			if churn {
				r = []int{0, 0, 0, 70, 70, 70, 87, 87, 87, 40, 84}[g.rng.Intn(11)] // put, delete(-version), multi-delete, get, list(-versions)
			}
			switch {
			case r < 32:
				sz := 8 + g.rng.Intn(200)
				if big && g.chance(0.5) {
					sz = 33000 + g.rng.Intn(70000)
				}
				op = Op{K: "put", B: b, Key: key(), Body: g.body(sz)}
				if chunkedRun && g.chance(0.6) {
					// streaming (aws-chunked) uploads that overlap one another
					op.Chunks = []int{g.pick2(7, 64, 1000, 40000)}
					if g.chance(0.4) {
						op.Frag = g.pick("random", "halves")
						op.Faults = append(op.Faults, Fault{Kind: "stall", N: g.n(1, 3)})
					}
				}
				if role == "slow-uploader" {
					op.Frag = g.pick("bytes", "random", "halves")
					op.Faults = append(op.Faults, Fault{Kind: "stall", N: g.n(1, 4)})
					if sz > 2000 && op.Frag == "bytes" {
						op.Frag = "random"
					}
				}
			case r < 58:
				op = Op{K: "get", B: b, Key: key()}
				if role == "slow-reader" {
					op.Faults = append(op.Faults, Fault{Kind: "slowreader", N: g.n(1, 6)})
				}
				if c.Versioned && g.chance(0.3) {
					op.Ver = g.n(1, 8)
				}
			case r < 64:
				op = Op{K: "head", B: b, Key: key()}
			case r < 74:
				op = Op{K: "del", B: b, Key: key()}
				if c.Versioned && (churn || g.chance(0.5)) {
					op.Ver = g.n(1, 6) // delete-version of one of the key's issued ids
				}
			case r < 80:
				op = Op{K: "copy", B: b, Key: key(), SrcB: b, SrcKey: key()}
			case r < 86:
				op = Op{K: "list", B: b, Keys: allKeys}
				if (c.Versioned || c.LinSetVer) && g.chance(0.6) {
					op.K = "lsversions"
				}
			case r < 89:
				op = Op{K: "delmulti", B: b, Keys: allKeys[:g.n(1, len(allKeys))]}
				if c.Versioned && (churn || g.chance(0.6)) {
					// a batch that names versions (a clean-up job): each entry
					// removes exactly that version
					op.Keys = append([]KeyRef{}, op.Keys...)
					for i := range op.Keys {
						if churn || g.chance(0.7) {
							op.Keys[i].Ver = g.n(1, 6)
						}
					}
				}
			default:
				if nup > 0 {
					if g.chance(0.7) {
						op = Op{K: "mpu-part", Up: g.rng.Intn(nup), Part: g.n(1, 3), Body: g.body(8 + g.rng.Intn(100))}
						if role == "slow-uploader" || g.chance(0.2) {
							op.Frag = g.pick("bytes", "random", "halves")
							op.Faults = append(op.Faults, Fault{Kind: "stall", N: g.n(1, 4)})
						}
					} else {
						switch r := g.rng.Intn(12); {
						case r < 6:
							op = Op{K: "mpu-complete", Up: g.rng.Intn(nup), Parts: []PartRef{{N: 1}, {N: 2}, {N: 3}}[:g.n(1, 3)]}
							if faultyMPU && g.chance(0.6) {
								op.Faults = []Fault{{Kind: g.pick("eio", "eio", "enospc"), At: g.n(1, 12), N: g.n(0, 10)}}
							}
						case r < 7:
							op = Op{K: "mpu-abort", Up: g.rng.Intn(nup)}
						case r < 9:
							op = Op{K: "mpu-lsparts", Up: g.rng.Intn(nup)}
						case r < 11:
							op = Op{K: "mpu-lsuploads", B: b}
						default:
							// read the key the upload will be completed into
							op = Op{K: "get", B: b, Key: c.LinUploads[g.rng.Intn(nup)][1]}
						}
					}
				} else {
					op = Op{K: "get", B: b, Key: key()}
				}
			}
			if ci == recycler && g.chance(0.35) {
				op = Op{K: "recycle", B: b, Keys: allKeys}
			} else if recycler >= 0 && g.chance(0.25) {
				op = Op{K: "del", B: b, Key: key()} // keep the bucket empty often enough
			}
			if c.LinSetVer && ci == setverAt[0] && i == setverAt[1] {
				ops = append(ops, Op{K: "setver", B: b, Status: "Enabled"})
			}
			ops = append(ops, op)
			if role == "retrier" && op.K == "put" && g.chance(0.5) {
				ops = append(ops, op) // duplicate request (a retry)
			}
		}
		p.Clients = append(p.Clients, ops)
	}
	if c.Buckets != nil && recycler < 0 && c.Backend != "singlefs" && g.chance(0.3) {
		// two buckets holding the same keys: requests for one must never be
		// served from, or land in, the other
		b2 := bucketNames[1]
		c.Buckets = []string{b, b2}
		for ci := range p.Clients {
			for oi := range p.Clients[ci] {
				op := &p.Clients[ci][oi]
				switch op.K {
				case "put", "get", "head", "del", "copy":
					if op.B == b && g.chance(0.5) {
						op.B = b2
					}
					if op.K == "copy" && op.SrcB == b && g.chance(0.5) {
						op.SrcB = b2
					}
				}
			}
		}
	}
	if c.Buckets != nil && nup == 0 && !c.Versioned && !c.LinSetVer && recycler < 0 && !c.PathKeys && g.chance(0.12) {
		// the very first multipart requests a bucket sees, several at once:
		// every client initiates an upload, then looks for all of them
		for ci := range p.Clients {
			mp := []Op{{K: "mpu-init", B: b, Key: g.pick("up-a", "up-b")}}
			for i, n := 0, g.n(1, 4); i < n; i++ {
				switch g.rng.Intn(4) {
				case 0:
					mp = append(mp, Op{K: "mpu-lsuploads", B: b})
				case 1:
					mp = append(mp, Op{K: "mpu-part", Up: g.rng.Intn(nclients), Part: g.n(1, 2), Body: g.body(8 + g.rng.Intn(40))})
				case 2:
					mp = append(mp, Op{K: "mpu-lsparts", Up: g.rng.Intn(nclients)})
				default:
					mp = append(mp, Op{K: "mpu-lsuploads", B: b}, Op{K: "mpu-init", B: b, Key: "up-c"})
				}
			}
			p.Clients[ci] = append(mp, p.Clients[ci]...)
			if len(p.Clients[ci]) > 10 {
				p.Clients[ci] = p.Clients[ci][:10]
			}
		}
	}
	if nup == 1 && !faultyMPU && len(c.Buckets) == 1 && g.chance(0.3) {
		// the smallest history around a completion: one client uploads a part
		// and completes; two others keep reading the key and listing the
		// uploads - whoever has read the assembled object finds the upload gone
		uk := c.LinUploads[0][1]
		watch := func() []Op {
			var w []Op
			for i, n := 0, g.n(2, 4); i < n; i++ {
				w = append(w, Op{K: "get", B: b, Key: uk}, Op{K: g.pick("mpu-lsuploads", "mpu-lsuploads", "mpu-lsparts"), B: b, Up: 0})
			}
			return w
		}
		second := watch()
		if g.chance(0.5) {
			// ... or one of them uploads the same part number again meanwhile
			second = []Op{{K: "mpu-lsparts", Up: 0}, {K: "mpu-part", Up: 0, Part: 1, Body: g.body(8 + g.rng.Intn(100))}, {K: "mpu-lsparts", Up: 0},
				{K: "mpu-part", Up: 0, Part: 1, Body: g.body(8 + g.rng.Intn(100))}, {K: "get", B: b, Key: uk}}
		}
		p.Clients = [][]Op{
			{{K: "mpu-part", Up: 0, Part: 1, Body: g.body(8 + g.rng.Intn(100))}, {K: "mpu-complete", Up: 0, Parts: []PartRef{{N: 1}}}, {K: "get", B: b, Key: uk}},
			watch(), second,
		}
		c.Policy = []simrt.Policy{{Kind: "coarse", PIO: 0.2}, {Kind: "coarse", PIO: 0.5}, {Kind: "pct", Depth: 2, Len: 300}, {Kind: "pct", Depth: 3, Len: 1500}, g.policy(3)}[g.rng.Intn(5)]
		return
	}
	if churn && len(c.Buckets) == 1 && len(c.LinUploads) == 0 && g.chance(0.5) {
		// the smallest such history: one version; a batch that names it, a
		// delete of it and a fresh upload of the key, all three at once
		k := KeyRef{Key: "k1", Ver: 1}
		p.Clients = [][]Op{
			{{K: "put", B: b, Key: "k1", Body: g.body(8 + g.rng.Intn(50))}, {K: "delmulti", B: b, Keys: []KeyRef{k}}, {K: "get", B: b, Key: "k1"}},
			{{K: g.pick("head", "get", "lsversions"), B: b, Key: "k1", Keys: []KeyRef{{Key: "k1"}}}, {K: "del", B: b, Key: "k1", Ver: 1}},
			{{K: g.pick("head", "get", "lsversions"), B: b, Key: "k1", Keys: []KeyRef{{Key: "k1"}}}, {K: "put", B: b, Key: "k1", Body: g.body(8 + g.rng.Intn(50))}, {K: "lsversions", B: b, Keys: []KeyRef{{Key: "k1"}}}},
		}
		// the window is the gap between two critical sections of one request:
		// policies that switch at lock boundaries, or at few chosen points
		c.Policy = []simrt.Policy{{Kind: "coarse", PIO: 0.2}, {Kind: "coarse", PIO: 0.5}, {Kind: "pct", Depth: 2, Len: 300}, {Kind: "pct", Depth: 3, Len: 300}, g.policy(3)}[g.rng.Intn(5)]
		return
	}
	c.Policy = g.policy(nclients)
}

// ---------------------------------------------------------------- C08

func (g *G) genC08(p *Plan) {
	c := &p.Config
	c.Faulty = false
	g.backend(c, allBackends, true)
	c.Buckets = []string{bucketNames[0]}
	c.NoIntegrity = g.chance(0.2)
	if g.chance(0.3) {
		c.MetaLimit = g.pick2(300, 1000, 2000)
	}
	c.Frag = g.pick("whole", "random", "halves")
	b := c.Buckets[0]
	key := g.pick("k1", "dir/sub/obj", "top")
	var ops []Op
	kind := g.pick("object", "object", "chunked", "part", "api")
	prior := g.pick("absent", "object", "object")
	if prior == "object" {
		ops = append(ops, Op{K: "put", B: b, Key: key, Body: g.body(g.smallSize()), Meta: g.meta()})
	}
	if g.chance(0.3) {
		ops = append(ops, Op{K: "put", B: b, Key: "bystander", Body: g.body(20)})
	}
	up := 0
	if kind == "part" || g.chance(0.2) {
		ops = append(ops, Op{K: "mpu-init", B: b, Key: key, Meta: g.meta()})
		ops = append(ops, Op{K: "mpu-part", Up: 0, Part: 1, Body: g.body(30)})
		if g.chance(0.5) {
			ops = append(ops, Op{K: "mpu-part", Up: 0, Part: 2, Body: g.body(31)})
		}
	}
	mk := func() Op {
		op := Op{K: "badput", B: b, Key: key, Meta: g.meta()}
		switch kind {
		case "chunked":
			op.Chunks = []int{g.pick2(1, 7, 64, 100000)}
		case "part":
			op.Up, op.Part = up, g.pick2(1, 2, 3)
			op.Meta = nil
		case "api":
			op.K, op.API = "put", true
			op.Meta = nil
		}
		return op
	}
	family := g.pick("abort", "abort", "lies", "limits")
	if kind == "api" {
		family = "abort"
	}
	switch family {
	case "abort":
		size := g.n(0, 256)
		if g.chance(0.25) {
			size = g.pick2(32767, 32768, 32769, 65537, 70000)
		}
		spec := g.body(size)
		probe := mk()
		probe.Body = spec
		wl := size
		if kind == "chunked" {
			wl = len(awsChunked(make([]byte, size), probe.Chunks, ""))
		}
		var offs []int
		if wl <= 300 {
			for k := 0; k <= wl; k++ {
				offs = append(offs, k)
			}
		} else {
			for _, k := range []int{0, 1, 2, wl / 2, 32767, 32768, 32769, 65536, wl - 2, wl - 1, wl} {
				if k >= 0 && k <= wl {
					offs = append(offs, k)
				}
			}
			if kind == "chunked" {
				// around every chunk header of the first few chunks
				cs := probe.Chunks[0]
				hdr := len(fmt.Sprintf("%x;chunk-signature=%s\r\n", cs, chunkSig))
				pos := 0
				for i := 0; i < 3 && pos < wl; i++ {
					for _, d := range []int{-1, 0, 1, hdr - 1, hdr, hdr + 1} {
						if pos+d >= 0 && pos+d <= wl {
							offs = append(offs, pos+d)
						}
					}
					pos += hdr + cs + 2
				}
			}
		}
		for _, k := range offs {
			op := mk()
			op.Body = spec
			if g.chance(0.3) {
				op.MD5 = "ok"
			}
			fk := "abort"
			if g.chance(0.5) {
				fk = "aborteof"
			}
			op.Faults = []Fault{{Kind: fk, At: k}}
			ops = append(ops, op)
			if g.chance(0.05) {
				ops = append(ops, Op{K: "fullcheck"})
			}
		}
	case "lies":
		size := g.n(0, 300)
		if g.chance(0.03) && kind != "api" {
			// sizes at which a server switches to another way of reading:
			// beyond what it allocates up front, and full-size parts
			size = 33554432 + g.n(1, 70000)
			if kind == "part" {
				size = g.pick2(5000000, 5000001, 5242880, 6000000)
			}
			spec := g.body(size)
			for _, md := range []string{"wrong", "ok", g.pick("wrong-zero", "wrong-lastbyte", "wrong-ones"), ""} {
				op := mk()
				op.Body, op.MD5 = spec, md
				if kind == "chunked" {
					op.Chunks = []int{g.pick2(65536, 1048576, 8000000)}
					if md == "" {
						op.ChLie = g.pick("declen-", "declen+", "nofinal")
					}
				} else if md == "" {
					op.LenLie = g.pick2(-1, 1)
				}
				ops = append(ops, op)
			}
			break
		}
		for _, md := range []string{"", "ok", "wrong", "malformed", "shortlen", "empty", "wrong-zero", "wrong-zero-padbits", "wrong-ones", "wrong-ofempty", "wrong-lastbyte"} {
			if md == "wrong-ofempty" && size == 0 {
				continue
			}
			for _, ll := range []int{0, -3, -1, 1, 5} {
				if ll < 0 && size+ll < 0 {
					continue
				}
				if g.chance(0.35) {
					continue
				}
				op := mk()
				op.Body = g.body(size)
				op.MD5, op.LenLie = md, ll
				if kind == "chunked" && ll != 0 {
					continue
				}
				ops = append(ops, op)
			}
		}
		for _, v := range []string{"nolen", "te"} {
			op := mk()
			op.Body = g.body(size)
			op.NoLen, op.TE = v == "nolen", v == "te"
			ops = append(ops, op)
		}
		if kind == "chunked" {
			for _, lie := range []string{"badhex", "nosig", "trunc", "trunc1", "declen+", "declen-", "nofinal", "sig63", "sig65", "sig200", "badcrlf", "upperhex", "afterfinal", "afterfinal-garbage", "hugehex", "hugehex-empty"} {
				op := mk()
				op.Body = g.body(1 + size)
				op.ChLie = lie
				ops = append(ops, op)
			}
		}
	case "limits":
		for _, kl := range []int{1023, 1024, 1025, 1500} {
			op := mk()
			op.Body = g.body(g.smallSize())
			if kind != "part" {
				op.Key = longKey(kl, c.IsFS())
			}
			ops = append(ops, op)
		}
		limit := c.MetaLimit
		if limit == 0 {
			limit = 2000
		}
		ds := []int{-400, -170, -1, 0, 1, 70, 400}
		if kind == "chunked" {
			// the headers that announce the framing count against the limit too
			ds = append(ds, -140, -110, -90, -60, -30, -10)
		}
		for _, d := range ds {
			op := mk()
			op.Body = g.body(g.smallSize())
			if kind != "part" {
				op.Meta = metaOfSize(limit + d)
			}
			ops = append(ops, op)
		}
	}
	if kind == "part" {
		// what the upload holds after all the rejected and accepted part uploads is observable only by completing it
		ops = append(ops, Op{K: "mpu-complete", Up: up, Parts: []PartRef{{N: 1}, {N: 2}, {N: 3}}[:g.n(1, 3)]})
	}
	ops = append(ops, Op{K: "fullcheck"})
	p.Clients = [][]Op{ops}
	c.Policy = simrt.Policy{Kind: "seq"}
}

func longKey(n int, fs bool) string {
	var sb strings.Builder
	for sb.Len() < n {
		if fs && sb.Len()%180 == 179 {
			sb.WriteByte('/')
		} else {
			sb.WriteByte("abcdefghij"[sb.Len()%10])
		}
	}
	return sb.String()[:n]
}

// metaOfSize builds a metadata set whose key+value bytes total n.
func metaOfSize(n int) map[string]string {
	m := map[string]string{}
	i := 0
	for n > 0 {
		name := fmt.Sprintf("X-Amz-Meta-F%02d", i)
		i++
		room := n - len(name)
		if room <= 0 {
			break
		}
		v := room
		if v > 300 {
			v = 300
		}
		m[name] = strings.Repeat("v", v)
		n -= len(name) + v
	}
	return m
}

// ---------------------------------------------------------------- C12

func (g *G) genC12(p *Plan) {
	c := &p.Config
	g.backend(c, allBackends, true)
	c.Buckets = []string{bucketNames[0]}
	c.NoIntegrity = g.chance(0.2)
	c.Frag = "whole"
	b := c.Buckets[0]
	key := g.pick("k1", "dir/streamed")
	var ops []Op
	if g.chance(0.5) {
		ops = append(ops, Op{K: "put", B: b, Key: key, Body: g.body(g.smallSize())})
	}
	small := g.chance(0.6)
	if small {
		size := g.n(0, 60)
		chunks := [][]int{{1}, {3}, {7, 2}, {size + 1}, {16}, {5, 1, 9}}[g.rng.Intn(6)]
		spec := g.body(size)
		wl := len(awsChunked(make([]byte, size), chunks, ""))
		mode := g.pick("single", "pair", "single")
		for i := 1; i < wl; i++ {
			op := Op{K: "put", B: b, Key: key, Body: spec, Chunks: chunks, Splits: []int{i}}
			if mode == "pair" {
				op.Splits = []int{i, i + 1}
			}
			if g.chance(0.3) {
				op.Faults = []Fault{{Kind: "eofdata"}}
			}
			ops = append(ops, op)
		}
		for _, fr := range []string{"bytes", "halves", "random"} {
			ops = append(ops, Op{K: "put", B: b, Key: key, Body: g.body(size), Chunks: chunks, Frag: fr})
		}
	} else {
		size := g.pick2(1000, 32767, 32768, 32769, 40000, 65536, 80000, 100000, 262144)
		if g.thorough() && g.chance(0.2) {
			size = 1<<20 + g.rng.Intn(3<<20)
		}
		chunkSets := [][]int{{size + 1}, {8192}, {32768}, {32769}, {65536}, {40000, 100}, {1000}, {70000}}
		chunks := chunkSets[g.rng.Intn(len(chunkSets))]
		spec := g.body(size)
		wire := awsChunked(make([]byte, size), chunks, "")
		wl := len(wire)
		// splits around chunk headers and 32 KiB multiples
		var marks []int
		pos := 0
		cs := chunks[0]
		for i := 0; i < 4 && pos < wl; i++ {
			n := cs
			if i < len(chunks) {
				n = chunks[i]
			}
			hdr := len(fmt.Sprintf("%x;chunk-signature=%s\r\n", n, chunkSig))
			marks = append(marks, pos, pos+hdr, pos+hdr+n, pos+hdr+n+2)
			pos += hdr + n + 2
		}
		for m := 32768; m < wl && len(marks) < 40; m += 32768 {
			marks = append(marks, m)
		}
		for _, m := range marks {
			for d := -2; d <= 2; d++ {
				if g.chance(0.5) {
					continue
				}
				s := m + d
				if s <= 0 || s >= wl {
					continue
				}
				op := Op{K: "put", B: b, Key: key, Body: spec, Chunks: chunks, Splits: []int{s}}
				if g.chance(0.3) {
					op.Splits = []int{s, s + 1 + g.rng.Intn(5)}
				}
				ops = append(ops, op)
			}
		}
		for _, fr := range []string{"random", "halves", "boundary"} {
			ops = append(ops, Op{K: "put", B: b, Key: key, Body: g.body(size), Chunks: chunks, Frag: fr})
		}
		if len(ops) > 60 {
			g.rng.Shuffle(len(ops), func(i, j int) { ops[i], ops[j] = ops[j], ops[i] })
			ops = ops[:60]
		}
	}
	hugeP := 0.012
	if g.thorough() {
		hugeP = 0.04
	}
	if g.chance(hugeP) {
		// "any payload": tens of megabytes, chunk sizes that do not divide
		// powers of two, short transport reads anywhere
		size := 1<<25 + g.pick2(1, 4097, 100000, 1<<20+3)
		if g.thorough() && g.chance(0.3) {
			size = 1<<26 + g.pick2(1, 70001)
		}
		chunks := [][]int{{5000000}, {size + 1}, {1<<20 + 1}, {3333333}, {65536}}[g.rng.Intn(5)]
		ops = ops[:0]
		for _, fr := range []string{"halves", "random"} {
			ops = append(ops, Op{K: "put", B: b, Key: key, Body: g.body(size), Chunks: chunks, Frag: fr})
		}
		ops = append(ops, Op{K: "put", B: b, Key: key, Body: g.body(size), Chunks: chunks, Splits: []int{1<<25 - g.n(1, 3000000), 1<<25 - g.n(1, 3000), 1<<25 + g.n(1, 5000)}})
	}
	if g.chance(0.3) {
		// a client that writes chunk sizes in upper-case hex
		for i := range ops {
			if ops[i].K == "put" && len(ops[i].Chunks) > 0 {
				ops[i].ChLie = "upperhex"
			}
		}
		for _, cs := range []int{10, 255, 7936, 43981, 48879} {
			ops = append(ops, Op{K: "put", B: b, Key: key, Body: g.body(cs*2 + g.n(0, 40)), Chunks: []int{cs}, ChLie: "upperhex", Frag: g.frag()})
		}
	}
	for _, lie := range []string{"badhex", "nosig", "trunc", "trunc1", "declen+", "declen-", "nofinal", "sig8", "sig63", "sig65", "sig200", "sig0", "badcrlf", "lfonly", "afterfinal", "afterfinal-garbage", "hugehex", "hugehex-empty"} {
		if g.chance(0.5) {
			continue
		}
		op := Op{K: "badput", B: b, Key: key, Body: g.body(1 + g.n(0, 200)), Chunks: []int{g.pick2(1, 16, 1000)}, ChLie: lie, Frag: g.frag()}
		at := g.n(0, len(ops))
		ops = append(ops[:at:at], append([]Op{op}, ops[at:]...)...)
	}
	p.Clients = [][]Op{ops}
	c.Policy = simrt.Policy{Kind: "seq"}
}

// ---------------------------------------------------------------- C15

func (g *G) genC15(p *Plan) {
	c := &p.Config
	crash := g.chance(0.6)
	c.Backend = g.pick("bolt", "multifs", "singlefs")
	if c.IsFS() {
		c.FS = "simfs"
		if !crash {
			c.FS = g.pick("simfs", "osdir", "memmap")
		}
		c.MtimeRes = g.pick("ns", "ns", "us", "s", "2s")
	}
	c.ClockStepMs = g.pick2(1, 7, 400, 1500)
	c.CrashAll = crash
	c.Frag = g.pick("whole", "random")
	nb := 1
	if c.Backend != "singlefs" {
		nb = g.n(1, 2)
	}
	c.Buckets = bucketNames[:nb]
	keys := append([]string{}, plainKeys[g.rng.Intn(len(plainKeys))]...)
	if g.chance(0.25) {
		// valid keys that look like the backends' own names
		k := g.pick(".modtime-resolution/x", "metadata/x", "buckets/y", ".hidden/z", "_meta/k")
		if c.Backend == "singlefs" && strings.HasPrefix(k, ".modtime-resolution") {
			k = "metadata/x" // the single-bucket backend reserves the name of its probe file
		}
		keys = append(keys, k)
	}
	bkt := func() string { return c.Buckets[g.rng.Intn(len(c.Buckets))] }
	key := func() string { return keys[g.rng.Intn(len(keys))] }
	var ops []Op
	n := g.n(5, 30)
	if crash {
		n = g.n(3, 12)
	}
	// guard of the known finding "fs uploads are not crash-atomic": the
	// uploads happen first, un-armed; the armed phase holds deletes and
	// bucket operations only
	guarded := crash && c.IsFS() && g.guards["fs-crash-atomicity"]
	if guarded {
		c.CrashFrom = n / 2
	}
	for i := 0; i < n; i++ {
		var op Op
		r := g.rng.Intn(100)
		if guarded && i >= c.CrashFrom && (r < 45 || (r >= 68 && r < 74)) {
			r = 45 + g.rng.Intn(23) // a delete or multi-delete instead of an upload or copy
		}
		switch {
		case r < 45:
			sz := g.smallSize()
			if g.chance(0.15) {
				sz = g.pick2(32768, 40000, 70000)
			}
			op = Op{K: "put", B: bkt(), Key: key(), Body: g.body(sz), Meta: g.meta()}
		case r < 62:
			op = Op{K: "del", B: bkt(), Key: key()}
		case r < 68:
			op = Op{K: "delmulti", B: bkt(), Keys: []KeyRef{{Key: key()}, {Key: key()}}}
		case r < 74:
			op = Op{K: "copy", B: bkt(), Key: key(), SrcB: bkt(), SrcKey: key()}
		case r < 78 && c.Backend != "singlefs":
			op = Op{K: "mkbucket", B: g.pick(bucketNames...)}
		case r < 82 && c.Backend != "singlefs":
			op = Op{K: "rmbucket", B: g.pick(bucketNames...)}
			if (c.Backend == "bolt" || !crash) && g.chance(0.35) {
				// forced deletion: on bolt one transaction, so a kill leaves the
				// bucket whole or gone; on the file systems it is many unlinks
				// and is only examined across a clean restart
				op.Status = "force"
			}
		case r < 90:
			op = Op{K: "get", B: bkt(), Key: key()}
			if g.chance(0.2) {
				op.Status = "since-epoch"
			}
		default:
			if crash {
				op = Op{K: "head", B: bkt(), Key: key()}
			} else {
				op = Op{K: "restart"}
			}
		}
		ops = append(ops, op)
	}
	if !crash {
		ops = append(ops, Op{K: "restart"})
	}
	if crash && c.Backend == "bolt" && g.chance(0.03) {
		// a large bucket deleted by force: the deletion is one request and one
		// acknowledged write whatever the number of objects
		b := bkt()
		ops = []Op{{K: "bulk", B: b, Max: g.pick2(1000, 1001, 1203, 2000, 2001, 2500)}, {K: "put", B: b, Key: key(), Body: g.body(g.smallSize())},
			{K: "rmbucket", B: b, Status: "force"}, {K: "headbucket", B: b}}
		c.CrashFrom = 2
	}
	if crash && c.IsFS() && g.chance(0.12) {
		// an overwrite by a body of the same length, killed at every point,
		// with the clock stepping (backwards as well) between the two uploads:
		// what is served afterwards is described by its own ETag
		b, k := bkt(), key()
		sz := g.pick2(0, 1, 37, 163, 4096)
		second := Op{K: "put", B: b, Key: k, Body: g.body(sz), Meta: g.meta()}
		if g.chance(0.7) {
			second.Faults = []Fault{{Kind: "clock", At: g.pick2(-7200, -60, -2, -1, 1, 60)}}
		}
		ops = []Op{{K: "put", B: b, Key: k, Body: g.body(sz), Meta: g.meta()}}
		if g.chance(0.5) {
			ops = append(ops, Op{K: g.pick("get", "head"), B: b, Key: k})
		}
		if g.chance(0.5) {
			// the object is deleted first, and the deletion is cut short by a
			// disk error somewhere between its file and its metadata entry
			ops = append(ops, Op{K: "del", B: b, Key: k, Faults: []Fault{{Kind: "eio", At: g.pick2(5, 5, 5, 6, 7, 8, 9, 4)}}})
			c.MtimeRes = g.pick("s", "2s", "s", "ns")
		}
		c.CrashFrom = len(ops)
		ops = append(ops, second)
	}
	p.Clients = [][]Op{ops}
	c.Policy = simrt.Policy{Kind: "seq"}
}

// ---------------------------------------------------------------- C10

var hostileKeys = []string{
	"../bkt-bbb/victim", "a/../../bkt-bbb/victim", "../../metadata/bkt-bbb/x", "./victim", "a/./b", "a/../victim", "..", ".",
	"a//b", "/lead", "a///b", ".hidden", "dir/.hidden", "back\\slash", "a\\..\\b", "pct%2Fenc", "pct%41", "%2e%2e/x",
	// names a backend might use for scratch files next to an object
	"victim.part", "victim.tmp", "victim.new", "victim~", ".victim.swp", "dir/obj.part", "dir/obj.part/below", "dir/.obj.tmp",
	"victim", "victim/child", "a", "a/b", "a/b/c", "dir", "dir/obj", "a_b", "a-b", "dir_obj", "a\\b", "dir\\obj", "a\\b\\c", "a/b\\c", "Victim", "DIR/OBJ",
	".modtime-resolution", "metadata", "buckets", "_meta", "bucket/bkt-aaa", "victim-" + "0000000000000000",
	strings.Repeat("L", 255), strings.Repeat("M", 256), "seg/" + strings.Repeat("N", 300) + "/end",
	"fresh/" + strings.Repeat("P", 300), "fresh2/er/" + strings.Repeat("Q", 256), "seg3/" + strings.Repeat("R", 300) + "/x/y",
	// storable keys that agree in their first couple of hundred bytes
	// key bytes that read like a subresource when a copy names them as source
	"victim?versionId=3", "dir/obj?versionId=null", "victim?x", "a/b?versionId=", "victim%3FversionId=3", "victim#frag", "victim&versionId=1",
	"lp/" + strings.Repeat("p", 210) + "-one", "lp/" + strings.Repeat("p", 210) + "-two", strings.Repeat("q", 250) + "/x", strings.Repeat("q", 250) + "/y",
}

func (g *G) genC10(p *Plan) {
	c := &p.Config
	c.Faulty = g.chance(0.15)
	g.backend(c, []string{"mem", "bolt", "bolt", "multifs", "multifs", "multifs", "singlefs"}, c.Faulty)
	if !c.IsFS() {
		c.Faulty = false
	}
	c.Frag = g.pick("whole", "random")
	// auto-creation of buckets: a request addressed to a bucket that does not
	// exist creates it first - whatever its name
	c.AutoBucket = c.Backend != "singlefs" && g.chance(0.2)
	nb := g.n(2, 3)
	if c.Backend == "singlefs" {
		nb = 1
	}
	c.Buckets = append([]string{}, bucketNames[:nb]...)
	var ops []Op
	// related contents: the same keys in every bucket
	base := []string{"victim", "dir/obj", "a/b"}
	for _, b := range c.Buckets {
		for _, k := range base {
			if g.chance(0.85) {
				ops = append(ops, Op{K: "put", B: b, Key: k, Body: g.body(g.smallSize()), Meta: g.meta()})
			}
		}
	}
	n := g.n(6, 20)
	for i := 0; i < n; i++ {
		b := c.Buckets[g.rng.Intn(len(c.Buckets))]
		k := hostileKeys[g.rng.Intn(len(hostileKeys))]
		if g.guards["fs-dot-dot"] && c.IsFS() && strings.Contains(k, "..") {
			k = "a//b"
		}
		op := Op{K: "hostile", B: b, Key: k}
		switch r := g.rng.Intn(100); {
		case r < 40:
			op.Sub = "put"
			op.Body = g.body(g.smallSize())
		case r < 55:
			op.Sub = "get"
		case r < 60:
			op.Sub = "head"
		case r < 75:
			op.Sub = "del"
		case r < 83:
			op.Sub = "copy"
			op.SrcB = c.Buckets[g.rng.Intn(len(c.Buckets))]
			op.SrcKey = base[g.rng.Intn(len(base))]
			if g.chance(0.4) {
				// the other way round: the hostile key names the source
				op.Sub, op.SrcB, op.SrcKey = "copyfrom", b, k
				op.B, op.Key = c.Buckets[g.rng.Intn(len(c.Buckets))], g.pick("copied/out", "copied-flat")
			}
		case r < 90:
			op.Sub = "delmulti"
		case r < 94:
			op.Sub = "list"
		case r < 96 && c.Backend != "singlefs" && len(c.Buckets) > 2:
			op.Sub, op.Key = "forcerm", ""
		default:
			if c.Backend == "bolt" {
				op.B = "_meta"
				op.Key = g.pick("bucket/bkt-aaa", "x", "bucket/bkt-bbb")
				op.Sub = g.pick("get", "put", "del", "list", "head")
				if op.Sub == "put" {
					op.Body = g.body(10)
				}
			} else {
				op.Sub = "get"
			}
		}
		if g.chance(0.06) && op.Sub != "forcerm" && op.B != "_meta" {
			// a bucket name that is a path segment of its own, with a key that
			// begins with the name of a real bucket
			real := c.Buckets[g.rng.Intn(len(c.Buckets))]
			if op.Sub == "copy" && g.chance(0.5) {
				// ... as the bucket of a copy source
				op.SrcB, op.SrcKey = g.pick(".", "..", "..."), real+"/"+g.pick("victim", "dir/obj")
			} else {
				op.B = g.pick(".", "..", ".", "...")
				op.Key = real + "/" + g.pick("victim", "fresh-x", "dir/obj")
			}
		}
		if c.Faulty && op.Sub == "put" && g.chance(0.3) {
			op.Faults = []Fault{{Kind: g.pick("eio", "enospc"), At: g.n(1, 10), N: 3}}
		}
		ops = append(ops, op)
		if c.Persistent() && g.chance(0.06) {
			ops = append(ops, Op{K: "restart"})
		}
	}
	if g.chance(0.35) {
		// multipart upload ids are bound to (bucket, key): using one under
		// another key or bucket must not touch the upload
		b0 := c.Buckets[0]
		other := c.Buckets[len(c.Buckets)-1]
		mp := []Op{{K: "mpu-init", B: b0, Key: "mpvictim"}, {K: "mpu-part", Up: 0, Part: 1, Body: g.body(9)}}
		for i, n := 0, g.n(1, 4); i < n; i++ {
			k := g.pick("dir/obj", "a/b", "victim2", "victi")
			switch g.rng.Intn(4) {
			case 0:
				mp = append(mp, Op{K: "mpu-part", Up: 0, Part: g.n(1, 2), Body: g.body(7), Key: k})
			case 1:
				mp = append(mp, Op{K: "mpu-complete", Up: 0, Parts: []PartRef{{N: 1}}, Key: k})
			case 2:
				mp = append(mp, Op{K: "mpu-abort", Up: 0, Key: k})
			default:
				if other != b0 {
					mp = append(mp, Op{K: "mpu-part", Up: 0, Part: 1, Body: g.body(7), B: other})
				} else {
					mp = append(mp, Op{K: "mpu-lsparts", Up: 0, Key: k})
				}
			}
		}
		mp = append(mp, Op{K: "mpu-lsparts", Up: 0}, Op{K: "mpu-complete", Up: 0, Parts: []PartRef{{N: 1}}})
		at := g.n(0, len(ops))
		ops = append(ops[:at:at], append(mp, ops[at:]...)...)
	}
	p.Clients = [][]Op{ops}
	c.Policy = simrt.Policy{Kind: "seq"}
}

// ---------------------------------------------------------------- C09

var hostileInts = []string{"0", "-1", "1", "2", "1000", "1001", "9999", "10000", "10001", "2147483647", "2147483648", "4294967296", "9223372036854775807", "9223372036854775808", "-9223372036854775808",
	"99999999999999999999999", "abc", "", "1e3", "0x10", " 5", "٣"}

func (g *G) hint() string { return hostileInts[g.rng.Intn(len(hostileInts))] }

func (g *G) genC09(p *Plan) {
	c := &p.Config
	c.Mode = "raw"
	c.Faulty = g.chance(0.3)
	g.backend(c, allBackends, c.Faulty)
	if !c.IsFS() || c.FS != "simfs" {
		c.Faulty = c.Faulty && false
	}
	c.Buckets = []string{bucketNames[0], bucketNames[1]}
	if c.Backend == "singlefs" {
		c.Buckets = c.Buckets[:1]
	}
	c.AutoBucket = c.Backend != "singlefs" && g.chance(0.2)
	c.NoVersioning = g.chance(0.15)
	c.HostBucket = g.chance(0.1)
	c.PageErr = g.chance(0.2)
	c.Frag = g.frag()
	nclients := g.n(1, 3)
	b := c.Buckets[0]
	keys := []string{"k1", "dir/k2", "k3"}
	rq := func(class, method, tgt string, hdr [][2]string, body string) Op {
		return Op{K: "raw", Raw: &RawReq{Method: method, Target: tgt, Headers: hdr, Body: body, Class: class}}
	}
	withLen := func(h [][2]string) [][2]string { return append(h, [2]string{"Content-Length", "{len}"}) }
	esc := url.QueryEscape
	// state building (blind): objects, versioning, versions, delete markers, deleted current versions, uploads with gaps
	var setup []Op
	for _, k := range keys {
		setup = append(setup, rq("state:put", "PUT", target(b, k, nil), withLen(nil), "body-of-"+k))
	}
	if g.chance(0.7) {
		setup = append(setup, rq("state:versioning", "PUT", "/"+b+"?versioning", withLen(nil), `<VersioningConfiguration><Status>Enabled</Status></VersioningConfiguration>`))
		for i := 0; i < g.n(1, 4); i++ {
			k := keys[g.rng.Intn(len(keys))]
			setup = append(setup, rq("state:put", "PUT", target(b, k, nil), withLen(nil), fmt.Sprintf("v%d-of-%s", i, k)))
		}
		setup = append(setup, rq("state:delete", "DELETE", target(b, keys[0], nil), nil, ""))
		if !g.guards["delete-current-version"] || g.chance(0.1) {
			k := keys[g.rng.Intn(len(keys))]
			setup = append(setup, rq("state:delete-current-version", "DELETE", target(b, k, nil)+"?versionId={ver:"+b+"/"+k+":9}", nil, ""))
		}
		if g.chance(0.4) {
			setup = append(setup, rq("state:versioning", "PUT", "/"+b+"?versioning", withLen(nil), `<VersioningConfiguration><Status>Suspended</Status></VersioningConfiguration>`))
			setup = append(setup, rq("state:put", "PUT", target(b, keys[0], nil), withLen(nil), "suspended-era"))
			setup = append(setup, rq("state:delete", "DELETE", target(b, keys[1], nil), nil, ""))
		}
	}
	if g.chance(0.7) {
		setup = append(setup, rq("state:mpu-init", "POST", target(b, "mp/obj", nil)+"?uploads", nil, ""))
		for _, n := range []int{2, 5} {
			setup = append(setup, rq("state:mpu-part", "PUT", target(b, "mp/obj", nil)+fmt.Sprintf("?uploadId={up:0}&partNumber=%d", n), withLen(nil), fmt.Sprintf("part-%d", n)))
		}
	}
	for ci := 0; ci < nclients; ci++ {
		var ops []Op
		if ci == 0 {
			ops = append(ops, setup...)
		}
		n := g.n(10, 40)
		for i := 0; i < n; i++ {
			op := g.rawRequest(c, b, keys, esc, rq, withLen)
			if g.chance(0.08) {
				op.Faults = append(op.Faults, Fault{Kind: g.pick("abort", "aborteof", "hang", "hang"), At: g.n(0, 12)})
			}
			if g.chance(0.05) {
				op.Faults = append(op.Faults, Fault{Kind: "respfail", At: g.n(1, 200)})
			}
			if c.Faulty && g.chance(0.1) {
				op.Faults = append(op.Faults, Fault{Kind: g.pick("eio", "enospc"), At: g.n(1, 10), N: 2})
			}
			ops = append(ops, op)
		}
		p.Clients = append(p.Clients, ops)
	}
	hugeP := 0.004
	if g.thorough() {
		hugeP = 0.02
	}
	if g.chance(hugeP) {
		// bodies that are really sent and really large (past the first and
		// the second step of whatever grows a buffer by the preallocation
		// limit of 32 MiB): an object, a part, a copy of the object
		big := func(class, method, tgt string, size int) Op {
			op := rq(class, method, tgt, withLen(nil), "")
			op.Raw.BodyGen = &BodySpec{Size: size, Stream: 7000 + g.rng.Intn(100)}
			return op
		}
		size := g.pick2(64<<20+1, 70<<20, 96<<20+5, 100<<20)
		ops := append([]Op{}, setup...)
		ops = append(ops, big("huge:put", "PUT", target(b, "huge/obj", nil), size))
		ops = append(ops, rq("huge:head", "HEAD", target(b, "huge/obj", nil), nil, ""))
		if g.chance(0.5) {
			ops = append(ops, rq("huge:copy", "PUT", target(b, "huge/copy", nil), [][2]string{{"X-Amz-Copy-Source", "/" + b + "/huge/obj"}}, ""))
		}
		if g.chance(0.5) {
			ops = append(ops, big("huge:part", "PUT", target(b, "mp/obj", nil)+"?uploadId={up:0}&partNumber=1", g.pick2(33<<20, 64<<20+7)))
		}
		p.Clients = [][]Op{ops}
		nclients = 1
	}
	c.Policy = g.policy(nclients)
}

func (g *G) rawRequest(c *Config, b string, keys []string, esc func(string) string,
	rq func(class, method, tgt string, hdr [][2]string, body string) Op, withLen func([][2]string) [][2]string) Op {
	k := keys[g.rng.Intn(len(keys))]
	bk := g.pick(b, b, b, "bkt-nope", "UPPER_bad", "a", c.Buckets[len(c.Buckets)-1])
	switch g.rng.Intn(24) {
	case 0: // list with hostile paging
		q := "?max-keys=" + esc(g.hint())
		if g.chance(0.5) {
			q += "&marker=" + esc(g.pick(k, "zzz", "", "dir/"))
		}
		if g.chance(0.5) {
			q += "&list-type=2&continuation-token=" + esc(g.pick("!!!", "", "Zm9v", "a===="))
		}
		if g.chance(0.5) {
			q += "&delimiter=" + esc(g.pick("/", "", "//", "é")) + "&prefix=" + esc(g.pick("dir/", "/", "", "d"))
		}
		return rq("list:paging", "GET", "/"+bk+q, nil, "")
	case 1: // versions listing with marker combinations
		q := "?versions"
		if g.chance(0.7) {
			q += "&key-marker=" + esc(g.pick(k, "", "zzz", "dir/"))
		}
		if g.chance(0.6) {
			q += "&version-id-marker=" + g.pick("{ver:"+b+"/"+k+":0}", "{ver:"+b+"/"+k+":1}", "null", "", "bogus")
		}
		if g.chance(0.5) {
			q += "&max-keys=" + esc(g.hint())
		}
		if g.chance(0.3) {
			q += "&prefix=" + esc(g.pick("dir/", "k", "zz")) + "&delimiter=%2F"
		}
		return rq("versions:markers", "GET", "/"+bk+q, nil, "")
	case 2: // list parts with hostile markers
		q := "?uploadId=" + g.pick("{up:0}", "{up:0}", "777", "abc") + "&part-number-marker=" + esc(g.hint()) + "&max-parts=" + esc(g.hint())
		return rq("mpu:list-parts", "GET", target(b, g.pick("mp/obj", k), nil)+q, nil, "")
	case 3: // list uploads
		q := "?uploads&max-uploads=" + esc(g.hint())
		if g.chance(0.6) {
			q += "&key-marker=" + esc(g.pick("mp/obj", "zz", "", "mp/")) + "&upload-id-marker=" + g.pick("{up:0}", "", "999", "abc")
		}
		if g.chance(0.4) {
			q += "&prefix=" + esc(g.pick("mp/", "m", "x")) + "&delimiter=%2F"
		}
		return rq("mpu:list-uploads", "GET", "/"+bk+q, nil, "")
	case 4: // upload part with hostile numbers
		q := "?uploadId=" + g.pick("{up:0}", "{up:0}", "424242") + "&partNumber=" + esc(g.hint())
		return rq("mpu:part-number", "PUT", target(b, "mp/obj", nil)+q, withLen(nil), "part-body")
	case 5: // complete with hostile bodies
		body := g.pick(
			`<CompleteMultipartUpload><Part><PartNumber>2</PartNumber><ETag>x</ETag></Part></CompleteMultipartUpload>`,
			`<CompleteMultipartUpload><Part><PartNumber>99999</PartNumber><ETag>x</ETag></Part></CompleteMultipartUpload>`,
			`<CompleteMultipartUpload><Part><PartNumber>-1</PartNumber><ETag>x</ETag></Part></CompleteMultipartUpload>`,
			`<CompleteMultipartUpload></CompleteMultipartUpload>`, `<CompleteMultipartUpload><Part>`, `<Wrong/>`, ``, "\x00\x01\x02",
			`<CompleteMultipartUpload>`+strings.Repeat(`<Part><PartNumber>5</PartNumber><ETag>e</ETag></Part>`, 50)+`</CompleteMultipartUpload>`)
		if g.chance(0.5) {
			// parts that exist (2 and 5 are uploaded by the set-up), hostile ETag texts
			etag := func() string {
				return g.pick(`x`, `"`, `""`, `"""`, `&quot;`, `&#34;`, ``, `"abc`, `abc"`, `-`, ` `, `"5f9a1a1b64a9b2ba17c2fb3d6d2b8bdc"`, `5f9a1a1b64a9b2ba17c2fb3d6d2b8bdc`,
					`"`+strings.Repeat("f", 32)+`"`, strings.Repeat(`"`, 33), `'x'`, `"x"-1`, "\"", `&#x22;&#x22;`, `<![CDATA["]]>`)
			}
			body = `<CompleteMultipartUpload>`
			for _, n := range [][]int{{2}, {5}, {2, 5}, {5, 2}, {2, 2}, {2, 5, 7}}[g.rng.Intn(6)] {
				body += fmt.Sprintf(`<Part><PartNumber>%d</PartNumber><ETag>%s</ETag></Part>`, n, etag())
			}
			body += `</CompleteMultipartUpload>`
		}
		return rq("mpu:complete-body", "POST", target(b, "mp/obj", nil)+"?uploadId="+g.pick("{up:0}", "31337"), withLen(nil), body)
	case 6: // copy with hostile sources
		src := g.pick("nobucket", "", "/", "/"+b, "/"+b+"/", b+"/"+k, "/"+b+"/"+k+"?versionId=abc", "/"+b+"/%zz", "//", "/nope/k", b+"/missing", "%")
		return rq("copy:source", "PUT", target(bk, "copied", nil), [][2]string{{"X-Amz-Copy-Source", src}}, "")
	case 7: // ranges
		rg := g.pick("bytes=0-0", "bytes=-1", "bytes=5-", "bytes=9999999999999999999-", "bytes=-9223372036854775808", "bytes=3-1", "bytes=", "boats=1-2",
			"bytes=0-0,2-3", "bytes= 1 - 2", "bytes=-", "bytes=1-9223372036854775807", "bytes=0-9223372036854775807", "bytes=2-9223372036854775806", "bytes=18446744073709551615-18446744073709551616", "bytes=0-99999999999999999999")
		return rq("get:range", g.pick("GET", "HEAD"), target(b, k, nil), [][2]string{{"Range", rg}}, "")
	case 8: // versioning bodies
		body := g.pick(`<VersioningConfiguration><Status>Enabled</Status></VersioningConfiguration>`, `<VersioningConfiguration><Status>Bogus</Status></VersioningConfiguration>`,
			`<VersioningConfiguration><MfaDelete>Enabled</MfaDelete></VersioningConfiguration>`, `<VersioningConfiguration><Status>`, ``, `<x/>`,
			`<VersioningConfiguration><Status><a><b/></a></Status></VersioningConfiguration>`)
		return rq("versioning:put", "PUT", "/"+bk+"?versioning", withLen(nil), body)
	case 9: // multi delete bodies
		body := g.pick(`<Delete><Object><Key>`+k+`</Key></Object></Delete>`, `<Delete><Object><Key>`+k+`</Key><VersionId>bogus</VersionId></Object></Delete>`,
			`<Delete><Object><Key>`+k+`</Key><VersionId>{ver:`+b+`/`+k+`:0}</VersionId></Object></Delete>`,
			`<Delete>`, ``, `<Delete><Quiet>maybe</Quiet></Delete>`, `<Delete><Object></Object></Delete>`, strings.Repeat("<a>", 300))
		return rq("delete:multi", "POST", "/"+bk+"?delete", withLen(nil), body)
	case 10: // versioned reads / deletes with hostile ids
		vid := g.pick("{ver:"+b+"/"+k+":0}", "{ver:"+b+"/"+k+":1}", "{ver:"+b+"/"+k+":2}", "null", "", "bogus", "3%2F", "%00")
		return rq("version:id", g.pick("GET", "HEAD", "DELETE", "PUT", "POST"), target(b, k, nil)+"?versionId="+vid, nil, "")
	case 11: // unknown methods and sub-resources
		return rq("route:unknown", g.pick("OPTIONS", "PATCH", "TRACE", "DELETE", "POST", "PUT", "HEAD", "GET"),
			g.pick("/", "/"+bk, target(bk, k, nil), "/"+bk+"?acl", "/"+bk+"?uploads", "/?versioning", "/"+bk+"?versions", target(bk, k, nil)+"?uploadId=1", "/"+bk+"?location", "//"+bk+"//"+k, "/"+bk+"/"), nil, "")
	case 12: // object puts with header lies
		h := [][2]string{}
		switch g.rng.Intn(6) {
		case 0:
			h = append(h, [2]string{"Content-Length", "5"}, [2]string{"Content-MD5", g.pick("", "!!", "AAAA", "1B2M2Y8AsgTpgAmY7PhCfg==")})
		case 1:
			h = append(h, [2]string{"Content-Length", "5"}, [2]string{"X-Amz-Content-Sha256", "STREAMING-AWS4-HMAC-SHA256-PAYLOAD"}, [2]string{"X-Amz-Decoded-Content-Length", g.hint()})
		case 2:
			h = append(h, [2]string{"Content-Length", "{len}"}, [2]string{"X-Amz-Meta-Big", strings.Repeat("m", g.pick2(10, 1900, 2100, 8000))})
		case 3:
			h = append(h, [2]string{"Transfer-Encoding", "chunked"})
		case 4:
			h = append(h, [2]string{"Content-Length", "{len}"}, [2]string{"x-amz-date", g.pick("20260301T120000Z", "19700101T000000Z", "garbage", "20990101T000000Z")})
		default:
			h = append(h, [2]string{"Content-Length", "{len}"}, [2]string{"If-None-Match", "*"})
		}
		body := "hello"
		if len(h) > 0 && h[0][0] == "Transfer-Encoding" {
			body = "5\r\nhello\r\n0\r\n\r\n"
		}
		return rq("put:headers", "PUT", target(bk, g.pick(k, strings.Repeat("K", 1025), "new/key"), nil), h, body)
	case 13: // browser form posts
		bd := "xYzBoundary"
		body := g.pick(
			"--"+bd+"\r\nContent-Disposition: form-data; name=\"key\"\r\n\r\nformkey\r\n--"+bd+"\r\nContent-Disposition: form-data; name=\"file\"; filename=\"f\"\r\n\r\nDATA\r\n--"+bd+"--\r\n",
			"--"+bd+"\r\nContent-Disposition: form-data; name=\"file\"; filename=\"f\"\r\n\r\nDATA\r\n--"+bd+"--\r\n",
			"--"+bd+"\r\nContent-Disposition: form-data; name=\"key\"\r\n\r\nk\r\n--"+bd+"--\r\n", "garbage", "",
			// policy fields with values out of any range
			"--"+bd+"\r\nContent-Disposition: form-data; name=\"key\"\r\n\r\nformkey\r\n--"+bd+"\r\nContent-Disposition: form-data; name=\"success_action_status\"\r\n\r\n"+g.pick("99", "0", "-1", "1000", "201", "abc", "99999999999999999999")+"\r\n--"+bd+"\r\nContent-Disposition: form-data; name=\"success_action_redirect\"\r\n\r\n"+g.pick("http://x/\x00", "::", "")+"\r\n--"+bd+"\r\nContent-Disposition: form-data; name=\"file\"; filename=\"f\"\r\n\r\nDATA\r\n--"+bd+"--\r\n")
		return rq("post:form", "POST", "/"+bk, withLen([][2]string{{"Content-Type", g.pick("multipart/form-data; boundary="+bd, "multipart/form-data", "text/plain")}}), body)
	case 14: // conditional gets
		return rq("get:conditional", g.pick("GET", "HEAD"), target(b, k, nil), [][2]string{{g.pick("If-None-Match", "If-Modified-Since"), g.pick(`"d41d8cd98f00b204e9800998ecf8427e"`, "garbage", "Mon, 02 Jan 2006 15:04:05 GMT", "Sun, 01 Mar 2099 12:00:00 GMT")}}, "")
	case 15: // bucket ops with hostile names / force delete
		h := [][2]string{}
		if g.chance(0.3) {
			h = append(h, [2]string{"x-minio-force-delete", "true"})
		}
		return rq("bucket:ops", g.pick("PUT", "DELETE", "HEAD", "GET"), "/"+g.pick(bk, "new-bucket-1", "ab", "Bad_Name", "1.2.3.4", strings.Repeat("x", 70), "..", "%2e%2e", "a..b"), h, "")
	case 16: // initiate / abort
		return rq("mpu:init-abort", g.pick("POST", "DELETE", "POST"), target(bk, g.pick("mp/obj", "mp/new"), nil)+g.pick("?uploads", "?uploadId={up:0}", "?uploadId=555", "?uploads&uploadId="), nil, "")
	case 17: // plain object traffic
		m := g.pick("GET", "HEAD", "DELETE", "PUT")
		h := [][2]string{}
		body := ""
		if m == "PUT" {
			body = "x-" + k
			h = withLen(h)
		}
		return rq("object:plain", m, target(bk, k, nil), h, body)
	case 18: // location / versioning gets
		return rq("bucket:subresource-get", "GET", "/"+bk+g.pick("?location", "?versioning", "?versions", "?uploads", "?list-type=2", "?list-type=3&start-after=%FF"), nil, "")
	case 19: // path shapes
		return rq("route:path-shape", g.pick("GET", "PUT", "DELETE"), g.pick("//", "/./", "/"+b+"/../"+b+"/"+k, "/"+b+"/%2e%2e/x", "/"+b+"/a%2Fb", "/"+b+"/"+strings.Repeat("p/", 300)+"x", "/%00", "/"+b+"/%FF%FE"), withLen(nil), "zz")
	case 20: // get listed v1 with odd parameters
		return rq("list:params", "GET", "/"+bk+"?"+g.pick("prefix=%FF", "delimiter=%00", "marker=%FF%FF", "encoding-type=url", "fetch-owner", "max-keys=5&max-keys=7", "prefix=a&prefix=b")+"&max-keys="+esc(g.hint()), nil, "")
	case 21: // complete of a live upload with its real parts (valid), racing others
		return rq("mpu:complete-valid", "POST", target(b, "mp/obj", nil)+"?uploadId={up:0}", withLen(nil),
			`<CompleteMultipartUpload><Part><PartNumber>2</PartNumber><ETag>`+md5hexs("part-2")+`</ETag></Part><Part><PartNumber>5</PartNumber><ETag>`+md5hexs("part-5")+`</ETag></Part></CompleteMultipartUpload>`)
	case 22: // aws-chunked garbage
		return rq("put:chunked-garbage", "PUT", target(b, "chunky", nil), withLen([][2]string{{"X-Amz-Content-Sha256", "STREAMING-AWS4-HMAC-SHA256-PAYLOAD"}, {"X-Amz-Decoded-Content-Length", g.pick("5", "0", "-3", "x")}}),
			g.pick("5;chunk-signature="+chunkSig+"\r\nhello\r\n0;chunk-signature="+chunkSig+"\r\n\r\n", "zz;", "5;chunk-signature=short\r\nhello", "ffffffffffffffff;chunk-signature="+chunkSig+"\r\n", "-5;chunk-signature="+chunkSig+"\r\nhello\r\n", ""))
	default: // suspended / delete marker reads
		return rq("object:after-marker", g.pick("GET", "HEAD", "DELETE"), target(b, keys[0], nil), nil, "")
	}
}

func md5hexs(s string) string { return md5hex([]byte(s)) }

var _ = simnet.EscapePath
