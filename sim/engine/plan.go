// Package engine runs plans (operation + fault + schedule sequences) against
// the instrumented gofakes3 inside the simulator and evaluates the oracle
// clauses of DESIGN.md §5.
package engine

import (
	"encoding/binary"
	"encoding/json"
	"fmt"
	"os"

	"simrt"
)

// Config is the per-run configuration (swarm-drawn in search mode).
type Config struct {
	Backend      string       `json:"backend"`                // mem | bolt | multifs | singlefs
	FS           string       `json:"fs,omitempty"`           // simfs | memmap | osdir
	AutoBucket   bool         `json:"autoBucket,omitempty"`   // WithAutoBucket
	NoIntegrity  bool         `json:"noIntegrity,omitempty"`  // WithIntegrityCheck(false)
	MetaLimit    int          `json:"metaLimit,omitempty"`    // WithMetadataSizeLimit (0 = default)
	PageErr      bool         `json:"pageErr,omitempty"`      // WithUnimplementedPageError
	NoVersioning bool         `json:"noVersioning,omitempty"` // WithoutVersioning
	HostBucket   bool         `json:"hostBucket,omitempty"`   // WithHostBucket (C09 only)
	Policy       simrt.Policy `json:"policy"`
	Frag         string       `json:"frag,omitempty"`     // default request fragmentation profile
	MtimeRes     string       `json:"mtimeRes,omitempty"` // ns | us | s | 2s (simfs)
	ClockStepMs  int          `json:"clockStepMs,omitempty"`
	Faulty       bool         `json:"faulty,omitempty"`    // failing faults may be attached to ops
	CrashAll     bool         `json:"crashAll,omitempty"`  // take a crash snapshot at every I/O boundary (C15)
	CrashFrom    int          `json:"crashFrom,omitempty"` // crash snapshots only for operations with at least this index
	BoltMmap     bool         `json:"boltMmap,omitempty"`  // open the bolt file with a large initial mmap (no remap on growth)
	Buckets      []string     `json:"buckets,omitempty"`   // buckets created by setup
	Versioned    bool         `json:"versioned,omitempty"`
	Mode         string       `json:"mode,omitempty"`       // seq (model-checked) | lin (C07) | raw (C09)
	PathKeys     bool         `json:"pathKeys,omitempty"`   // the key universe holds a key below another key (refused uploads are legitimate on fs)
	HostBase     bool         `json:"hostBase,omitempty"`   // WithHostBucketBase("sim"): about half of the bucket-addressed requests travel virtual-host style
	AmzDate      bool         `json:"amzDate,omitempty"`    // requests carry x-amz-date with the simulated clock's current time (always within the skew limit)
	RawKeys      bool         `json:"rawKeys,omitempty"`    // keys carry \xNN byte escapes: keys that are not valid UTF-8 (which XML listings cannot show; such runs do not list)
	DirOrder     bool         `json:"dirOrder,omitempty"`   // the simulated disk hands out directory entries in hash order, not by name
	LateEOF      bool         `json:"lateEOF,omitempty"`    // request bodies report EOF in a separate read (HTTP/2, buffering middleware)
	LinKeys      []string     `json:"linKeys,omitempty"`    // C07 snapshot runs: the keys of the run
	LinSnap      bool         `json:"linSnap,omitempty"`    // C07: all keys of the run form one partition, so that a listing is held to one instant across keys
	LinFill      int          `json:"linFill,omitempty"`    // C07: filler objects 'bulk/NNNNN' stored by set-up (a listing walks over them between the keys of the run)
	LinSetVer    bool         `json:"linSetVer,omitempty"`  // C07: a never-versioned bucket gets versioning enabled by one of the clients during the run
	LinUploads   [][2]string  `json:"linUploads,omitempty"` // (bucket, key) of multipart uploads initiated by setup (C07)
}

// BodySpec describes body bytes; they are regenerated from (plan seed,
// stream, size) and never stored.
type BodySpec struct {
	Size   int `json:"size"`
	Stream int `json:"stream"`
}

// Fault is a fault attached to the op it hits.
type Fault struct {
	Kind string `json:"kind"`         // abort | aborteof | stall | frag | respfail | slowreader | eio | enospc | shortread | clock | eofdata | dup
	At   int    `json:"at,omitempty"` // byte offset / fs call index / amount
	N    int    `json:"n,omitempty"`
	S    string `json:"s,omitempty"`
}

// KeyRef names an object (optionally a version) in a multi-delete.
type KeyRef struct {
	Key string `json:"key"`
	Ver int    `json:"ver,omitempty"` // 0 none, i>0: i-th known version (1-based, wraps), -1 unknown id
}

// PartRef names a part in a complete request.
type PartRef struct {
	N    int    `json:"n"`
	ETag string `json:"etag,omitempty"` // "" correct | stale | garbage
}

// Op is one client operation with symbolic arguments.
type Op struct {
	K      string            `json:"k"`
	Sub    string            `json:"sub,omitempty"` // hostile: the underlying operation kind
	B      string            `json:"b,omitempty"`
	Key    string            `json:"key,omitempty"`
	Body   *BodySpec         `json:"body,omitempty"`
	Meta   map[string]string `json:"meta,omitempty"`
	MD5    string            `json:"md5,omitempty"`    // "" none | ok | wrong | malformed | shortlen | empty
	LenLie int               `json:"lenLie,omitempty"` // declared Content-Length = len(body)+LenLie
	NoLen  bool              `json:"noLen,omitempty"`  // omit Content-Length
	TE     bool              `json:"te,omitempty"`     // Transfer-Encoding: chunked instead of a length
	Chunks []int             `json:"chunks,omitempty"` // aws-chunked chunk sizes (payload split)
	ChLie  string            `json:"chLie,omitempty"`  // badhex | nosig | trunc | declen+ | declen- | nofinal
	Splits []int             `json:"splits,omitempty"` // explicit transport split points relative to body start
	SrcB   string            `json:"srcB,omitempty"`
	SrcKey string            `json:"srcKey,omitempty"`
	Ver    int               `json:"ver,omitempty"` // version ref as in KeyRef
	Keys   []KeyRef          `json:"keys,omitempty"`
	Quiet  bool              `json:"quiet,omitempty"`
	Status string            `json:"status,omitempty"` // versioning status to set
	Prefix string            `json:"prefix,omitempty"`
	Delim  string            `json:"delim,omitempty"`
	V2     bool              `json:"v2,omitempty"`
	Max    int               `json:"max,omitempty"`
	Marker string            `json:"marker,omitempty"`
	HasMk  bool              `json:"hasMk,omitempty"`
	Sticky bool              `json:"sticky,omitempty"` // V2 walks: keep sending start-after together with the continuation token (as the AWS SDK paginator does)
	Up     int               `json:"up,omitempty"`     // upload ref (0-based index into uploads initiated in this run, wraps); -1 unknown
	Part   int               `json:"part,omitempty"`
	Parts  []PartRef         `json:"parts,omitempty"`
	API    bool              `json:"api,omitempty"` // through the Go Backend API instead of HTTP
	Form   bool              `json:"form,omitempty"`
	Raw    *RawReq           `json:"raw,omitempty"`
	Faults []Fault           `json:"faults,omitempty"`
	Frag   string            `json:"frag,omitempty"`
}

// RawReq is an arbitrary request of the C09 grammar.
type RawReq struct {
	Method  string      `json:"m"`
	Target  string      `json:"t"`
	Host    string      `json:"h,omitempty"`
	Headers [][2]string `json:"hd,omitempty"`
	Body    string      `json:"body,omitempty"`    // literal body
	BodyGen *BodySpec   `json:"bodyGen,omitempty"` // or generated bytes
	Class   string      `json:"class,omitempty"`   // (route, parameter-class) label for coverage
}

// ViolationInfo is stored in replay files.
type ViolationInfo struct {
	Property  string `json:"property"`
	Clause    string `json:"clause"`
	Signature string `json:"signature"`
	Expected  string `json:"expected"`
	Observed  string `json:"observed"`
	Client    int    `json:"client"`
	OpIndex   int    `json:"opIndex"`
}

// Plan is a complete, replayable run description.
type Plan struct {
	Property  string            `json:"property"`
	Seed      int64             `json:"seed"`
	Tier      string            `json:"tier,omitempty"`
	Config    Config            `json:"config"`
	Clients   [][]Op            `json:"clients"`
	Schedule  []simrt.Deviation `json:"schedule,omitempty"`
	Replay    bool              `json:"replay,omitempty"` // schedule is authoritative (replay mode)
	Violation *ViolationInfo    `json:"violation,omitempty"`
	Trace     []string          `json:"trace,omitempty"`
	LogHash   string            `json:"loghash,omitempty"`
}

// NOps is the total number of operations.
func (p *Plan) NOps() int {
	n := 0
	for _, c := range p.Clients {
		n += len(c)
	}
	return n
}

// Clone deep-copies via JSON.
func (p *Plan) Clone() *Plan {
	b, _ := json.Marshal(p)
	var q Plan
	_ = json.Unmarshal(b, &q)
	return &q
}

// Save writes the plan as indented JSON.
func (p *Plan) Save(path string) error {
	b, err := json.MarshalIndent(p, "", " ")
	if err != nil {
		return err
	}
	return os.WriteFile(path, b, 0644)
}

// LoadPlan reads a replay file.
func LoadPlan(path string) (*Plan, error) {
	b, err := os.ReadFile(path)
	if err != nil {
		return nil, err
	}
	var p Plan
	if err := json.Unmarshal(b, &p); err != nil {
		return nil, fmt.Errorf("%s: %v", path, err)
	}
	return &p, nil
}

// splitmix64
func mix(x uint64) uint64 {
	x += 0x9E3779B97F4A7C15
	x = (x ^ (x >> 30)) * 0xBF58476D1CE4E5B9
	x = (x ^ (x >> 27)) * 0x94D049BB133111EB
	return x ^ (x >> 31)
}

// BodyBytes regenerates the bytes of a body spec: pseudo-random content whose
// first bytes carry the stream id, so distinct streams give distinct bodies of
// any size >= 4.
func BodyBytes(seed int64, b *BodySpec) []byte {
	if b == nil {
		return nil
	}
	out := make([]byte, b.Size)
	st := mix(uint64(seed)) ^ mix(uint64(b.Stream)+0x1234567)
	for i := 0; i < len(out); i += 8 {
		st = mix(st)
		var w [8]byte
		binary.LittleEndian.PutUint64(w[:], st)
		copy(out[i:], w[:])
	}
	var id [4]byte
	binary.BigEndian.PutUint32(id[:], uint32(b.Stream))
	copy(out, id[:])
	return out
}
