package engine

import (
	"crypto/md5"
	"encoding/hex"
	"encoding/xml"
	"fmt"
	"net/url"
	"sort"
	"strings"
)

// keySnap is everything a client can observe about one key.
type keySnap struct {
	Status  int
	Code    string
	MD5     string
	Size    int
	Headers string // entity headers, sorted "K: v" lines
	ETag    string // the ETag header, unquoted
}

func (k *keySnap) String() string {
	if k == nil {
		return "<not observed>"
	}
	if k.Status != 200 {
		return fmt.Sprintf("%d %s", k.Status, k.Code)
	}
	return fmt.Sprintf("200 size=%d md5=%s hdr{%s}", k.Size, k.MD5, strings.ReplaceAll(k.Headers, "\n", "; "))
}

type bucketSnap struct {
	ListStatus int
	Grouped    string   // listing with delimiter "/" (shows directories on the fs backends)
	Listing    []string // "key|size|etag"
	Keys       map[string]*keySnap
	Uploads    []string // "key|uploadId|parts..."
}

type storeSnap struct {
	Names   []string
	Buckets map[string]*bucketSnap
}

func entityHeaders(resp *Resp) string {
	var lines []string
	for k, vs := range resp.Header {
		lk := strings.ToLower(k)
		switch {
		case lk == "x-amz-id-2", lk == "x-amz-request-id":
		case strings.HasPrefix(lk, "x-amz-"), lk == "content-type", lk == "content-encoding", lk == "content-disposition",
			lk == "etag", lk == "content-length", lk == "last-modified":
			lines = append(lines, k+": "+strings.Join(vs, ","))
		}
	}
	sort.Strings(lines)
	return strings.Join(lines, "\n")
}

func (r *Run) observeKey(bucket, key string) *keySnap {
	resp := r.quiet("GET", target(bucket, key, nil))
	r.noPanic(resp, "GET object")
	ks := &keySnap{Status: resp.Status, Code: resp.Code}
	if resp.Status == 200 {
		s := md5.Sum(resp.Body)
		ks.MD5 = hex.EncodeToString(s[:])
		ks.Size = len(resp.Body)
		ks.Headers = entityHeaders(resp)
		ks.ETag = strings.Trim(resp.Header.Get("ETag"), `"`)
	}
	return ks
}

func (r *Run) observeListing(bucket string) (int, []string) {
	resp := r.quiet("GET", target(bucket, "", nil))
	r.noPanic(resp, "list objects")
	if resp.Status != 200 {
		return resp.Status, nil
	}
	var x xListResult
	if xml.Unmarshal(resp.Body, &x) != nil {
		return -1, nil
	}
	var out []string
	for _, c := range x.Contents {
		out = append(out, fmt.Sprintf("%s|%d|%s", c.Key, c.Size, c.ETag))
	}
	return 200, out
}

// observeGrouped is the bucket's listing with delimiter "/" (Contents and
// CommonPrefixes), which on the file-system backends also shows directories.
func (r *Run) observeGrouped(bucket string) string {
	resp := r.quiet("GET", target(bucket, "", url.Values{"delimiter": {"/"}}))
	r.noPanic(resp, "list objects")
	if resp.Status != 200 {
		return fmt.Sprintf("status %d", resp.Status)
	}
	var x xListResult
	if xml.Unmarshal(resp.Body, &x) != nil {
		return "unparsable"
	}
	return fromX(&x).String()
}

func (r *Run) observeUploads(bucket string) []string {
	resp := r.quiet("GET", target(bucket, "", url.Values{"uploads": {""}}))
	r.noPanic(resp, "list multipart uploads")
	if resp.Status != 200 {
		return []string{fmt.Sprintf("status %d %s", resp.Status, resp.Code)}
	}
	var x xUploadsResult
	if xml.Unmarshal(resp.Body, &x) != nil {
		return []string{"unparsable"}
	}
	var out []string
	for _, u := range x.Uploads {
		line := u.Key + "|" + u.UploadID
		pr := r.quiet("GET", target(bucket, u.Key, url.Values{"uploadId": {u.UploadID}}))
		r.noPanic(pr, "list parts")
		var px xPartsResult
		if pr.Status == 200 && xml.Unmarshal(pr.Body, &px) == nil {
			for _, p := range px.Parts {
				line += fmt.Sprintf("|%d:%d:%s", p.PartNumber, p.Size, p.ETag)
			}
		} else {
			line += fmt.Sprintf("|parts status %d", pr.Status)
		}
		out = append(out, line)
	}
	return out
}

// snapshotStore observes every bucket, every listed or model-known key and
// the pending uploads through the HTTP API.
func (r *Run) snapshotStore(extra ...[2]string) *storeSnap {
	names, _ := r.listBucketNames()
	s := &storeSnap{Names: names, Buckets: map[string]*bucketSnap{}}
	all := map[string]bool{}
	for _, n := range names {
		all[n] = true
	}
	for n := range r.M.Buckets {
		all[n] = true
	}
	var bn []string
	for n := range all {
		bn = append(bn, n)
	}
	sort.Strings(bn)
	inNames := map[string]bool{}
	for _, n := range names {
		inNames[n] = true
	}
	for _, n := range bn {
		bs := &bucketSnap{Keys: map[string]*keySnap{}}
		if r.Plan.Config.AutoBucket && !inNames[n] {
			// with auto-creation a look at a bucket that does not exist brings
			// it into being: what ListBuckets does not show is not looked at
			bs.ListStatus = 404
			s.Buckets[n] = bs
			continue
		}
		bs.ListStatus, bs.Listing = r.observeListing(n)
		if bs.ListStatus == 200 {
			bs.Grouped = r.observeGrouped(n)
		}
		keys := map[string]bool{}
		for _, l := range bs.Listing {
			keys[strings.SplitN(l, "|", 2)[0]] = true
		}
		if mb := r.M.Buckets[n]; mb != nil {
			for k := range mb.Keys {
				keys[k] = true
			}
		}
		for _, e := range extra {
			if e[0] == n {
				keys[e[1]] = true
			}
		}
		var kn []string
		for k := range keys {
			kn = append(kn, k)
		}
		sort.Strings(kn)
		for _, k := range kn {
			bs.Keys[k] = r.observeKey(n, k)
		}
		if mb := r.M.Buckets[n]; mb != nil && mb.HadUpload {
			bs.Uploads = r.observeUploads(n)
		}
		s.Buckets[n] = bs
	}
	return s
}

// diffSnap returns "" when equal, else a description of the first difference.
// except, when given, names one (bucket, key) that may differ.
func diffSnap(a, b *storeSnap, except ...[2]string) string {
	skip := func(bn, k string) bool {
		for _, e := range except {
			if e[0] == bn && e[1] == k {
				return true
			}
		}
		return false
	}
	skipBucket := func(bn string) bool {
		for _, e := range except {
			if e[0] == bn {
				return true
			}
		}
		return false
	}
	if strings.Join(a.Names, ",") != strings.Join(b.Names, ",") {
		return fmt.Sprintf("bucket set: before [%s] after [%s]", strings.Join(a.Names, ","), strings.Join(b.Names, ","))
	}
	var bn []string
	for n := range a.Buckets {
		bn = append(bn, n)
	}
	sort.Strings(bn)
	for _, n := range bn {
		x, y := a.Buckets[n], b.Buckets[n]
		if y == nil {
			return "bucket " + n + " no longer observable"
		}
		var kn []string
		for k := range x.Keys {
			kn = append(kn, k)
		}
		for k := range y.Keys {
			if _, ok := x.Keys[k]; !ok {
				kn = append(kn, k)
			}
		}
		sort.Strings(kn)
		for _, k := range kn {
			if skip(n, k) {
				continue
			}
			kx, ky := x.Keys[k], y.Keys[k]
			if kx == nil {
				if ky.Status == 200 {
					return fmt.Sprintf("key %s/%q: content appeared: %s", n, k, ky)
				}
				continue
			}
			if ky == nil {
				if kx.Status == 200 {
					return fmt.Sprintf("key %s/%q: content vanished from listing and model: before %s", n, k, kx)
				}
				continue
			}
			if *kx != *ky {
				kind := "content changed"
				switch {
				case kx.Status == 200 && ky.Status != 200:
					kind = "content became unreadable"
				case kx.Status != 200 && ky.Status == 200:
					kind = "content appeared"
				case kx.Status != ky.Status:
					kind = "status changed"
				case kx.MD5 == ky.MD5 && kx.Size == ky.Size:
					kind = "metadata changed"
				}
				return fmt.Sprintf("key %s/%q: %s: before %s after %s", n, k, kind, kx, ky)
			}
		}
		if x.ListStatus != y.ListStatus {
			return fmt.Sprintf("bucket %s: listing status: before %d after %d", n, x.ListStatus, y.ListStatus)
		}
		lx, ly := x.Listing, y.Listing
		if skipBucket(n) {
			lx, ly = dropListed(lx, n, except), dropListed(ly, n, except)
		}
		if strings.Join(lx, "\n") != strings.Join(ly, "\n") {
			return fmt.Sprintf("bucket %s: listing changed: before %v after %v", n, lx, ly)
		}
		if !skipBucket(n) && x.Grouped != y.Grouped {
			return fmt.Sprintf("bucket %s: delimited listing changed: before %s after %s", n, x.Grouped, y.Grouped)
		}
		if strings.Join(x.Uploads, "\n") != strings.Join(y.Uploads, "\n") {
			return fmt.Sprintf("bucket %s: pending uploads changed: before %v after %v", n, x.Uploads, y.Uploads)
		}
	}
	return ""
}

func dropListed(l []string, bucket string, except [][2]string) []string {
	var out []string
	for _, e := range l {
		k := strings.SplitN(e, "|", 2)[0]
		drop := false
		for _, x := range except {
			if x[0] == bucket && x[1] == k {
				drop = true
			}
		}
		if !drop {
			out = append(out, e)
		}
	}
	return out
}

// snapSig reduces a difference description to its class (for signatures).
func snapSig(d string) string {
	for _, c := range []string{"bucket set", "no longer observable", "content appeared", "content vanished", "content became unreadable",
		"status changed", "metadata changed", "content changed", "listing status", "delimited listing changed", "listing changed", "pending uploads changed"} {
		if strings.Contains(d, c) {
			return c
		}
	}
	return "difference"
}
