package engine

import (
	"fmt"
	"math/rand"
	"sort"
	"strings"

	"simrt"
)

// G generates plans from one seed.
type G struct {
	rng    *rand.Rand
	seed   int64
	tier   string
	stream int
	guards map[string]bool // generator guards of known findings (DESIGN §7)
}

func (g *G) thorough() bool           { return g.tier == "thorough" }
func (g *G) chance(p float64) bool    { return g.rng.Float64() < p }
func (g *G) pick(xs ...string) string { return xs[g.rng.Intn(len(xs))] }
func (g *G) n(lo, hi int) int {
	if hi <= lo {
		return lo
	}
	return lo + g.rng.Intn(hi-lo+1)
}

func (g *G) body(size int) *BodySpec {
	g.stream++
	return &BodySpec{Size: size, Stream: g.stream}
}

var sizeClasses = []int{0, 1, 2, 17, 100, 1000, 4095, 4096, 4097, 32767, 32768, 32769, 65535, 65536, 65537}

func (g *G) size() int {
	switch r := g.rng.Intn(100); {
	case r < 45:
		return g.rng.Intn(300)
	case r < 85:
		return sizeClasses[g.rng.Intn(len(sizeClasses))]
	case r < 97:
		return g.rng.Intn(70000)
	default:
		if g.thorough() {
			return 1<<20 + g.rng.Intn(3<<20)
		}
		return 200000 + g.rng.Intn(900000)
	}
}

func (g *G) smallSize() int {
	if g.chance(0.15) {
		return sizeClasses[g.rng.Intn(len(sizeClasses))]
	}
	return 4 + g.rng.Intn(200)
}

var metaPool = [][2]string{
	{"X-Amz-Meta-Color", "blue"}, {"X-Amz-Meta-Owner", "alice bob"}, {"X-Amz-Meta-Empty-Ish", "-"},
	{"X-Amz-Meta-Num", "0042"}, {"X-Amz-Meta-Punct", "a=b;c,d/e:f"},
	{"Content-Type", "text/plain; charset=utf-8"}, {"Content-Type", "application/octet-stream"},
	{"Content-Encoding", "gzip"}, {"Content-Disposition", `attachment; filename="a b.txt"`},
	{"X-Amz-Meta-Mixed-Case-Name", "MiXeD"}, {"X-Amz-Storage-Class", "STANDARD"},
	// object properties that S3 spells X-Amz-<not Meta>
	{"X-Amz-Tagging", "team=blue&stage=dev"}, {"X-Amz-Website-Redirect-Location", "/elsewhere.html"}, {"X-Amz-Storage-Class", "REDUCED_REDUNDANCY"},
	// header values are bytes: UTF-8 beyond ASCII, and Latin-1 (not valid UTF-8; written with the
	// plan's byte escape, see decodedMeta)
	{"X-Amz-Meta-Color", ""}, {"X-Amz-Meta-Void", ""}, // a header sent with an empty value
	{"X-Amz-Meta-Utf8", "ünï cödé"}, {"X-Amz-Meta-Author", `Ren\xe9`}, {"Content-Disposition", `attachment; filename="caf\xe9.txt"`},
}

func (g *G) meta() map[string]string {
	if g.chance(0.35) {
		return nil
	}
	m := map[string]string{}
	for i, n := 0, g.n(1, 4); i < n; i++ {
		kv := metaPool[g.rng.Intn(len(metaPool))]
		m[kv[0]] = kv[1]
		if g.chance(0.2) {
			m[kv[0]] = fmt.Sprintf("%s-%d", kv[1], g.rng.Intn(1000))
		}
	}
	return m
}

func (g *G) frag() string {
	return g.pick("whole", "whole", "halves", "bytes", "random", "random", "boundary")
}

func (g *G) policy(nClients int) simrt.Policy {
	if nClients <= 1 {
		return simrt.Policy{Kind: "seq"}
	}
	switch g.rng.Intn(10) {
	case 0:
		return simrt.Policy{Kind: "seq"}
	case 1, 2:
		return simrt.Policy{Kind: "coarse", PIO: []float64{0.2, 0.5}[g.rng.Intn(2)]}
	case 3, 4:
		return simrt.Policy{Kind: "pct", Depth: g.n(1, 3), Len: []int{300, 1500, 6000}[g.rng.Intn(3)]}
	default:
		p := []float64{0.002, 0.02, 0.1, 0.5}[g.rng.Intn(4)]
		pio := p
		if pio < 0.3 {
			pio = 0.3
		}
		return simrt.Policy{Kind: "random", P: p, PIO: pio}
	}
}

var allBackends = []string{"mem", "bolt", "multifs", "singlefs"}

// backend draws a backend and, for the fs ones, the filesystem kind.
func (g *G) backend(c *Config, allowed []string, faulty bool) {
	c.Backend = allowed[g.rng.Intn(len(allowed))]
	if c.IsFS() {
		switch r := g.rng.Intn(10); {
		case faulty || r < 6:
			c.FS = "simfs"
			c.MtimeRes = g.pick("ns", "ns", "us", "s", "2s")
		case r < 8:
			c.FS = "memmap"
		default:
			c.FS = "osdir"
		}
	}
	c.ClockStepMs = []int{1, 7, 400, 1500}[g.rng.Intn(4)]
	c.BoltMmap = c.Backend == "bolt" && g.chance(0.5)
}

// the third name extends the first as a string (not as a path)
var bucketNames = []string{"bkt-aaa", "bkt-bbb", "bkt-aaa2"}

// key universes: prefix-free as paths so that they are inside every
// backend's key domain.
var plainKeys = [][]string{
	{"k1", "k2", "k3"},
	{"d/x", "d/y", "top"},
	{"a/b/c", "a/b/d", "a/e", "z"},
	{"dir/sub/obj.txt", "dir/other", "file"},
	{"logs/a", "logs-old/b", "logs/c", "logs.d"}, // sibling directories, one name a string prefix of the other
	{"a/b/x", "a/b-c/y", "a/bb/z", "a/b/w"},
}

var richKeys = []string{
	"plain", "dir/sub/obj.txt", "sp ace+plus&amp=eq", "ünï/cödé/ключ", "q?mark#hash%25x", "semi;colon,comma'quote\"dq",
	"~tilde!bang*(paren)", "UPPER/lower/MiXed", "日本語/キー", "a.b-c_d/e.f", "trailing.dot./x", "@at$dollar^caret`tick",
	"[br]{ace}|pipe<lt>gt", "tab\tchar", "very/deeply/nested/key/with/many/segments/indeed/yes",
	"reports/2024", "reports_2024", "reports-2024",
	"lp/" + strings.Repeat("p", 210) + "-one", "lp/" + strings.Repeat("p", 210) + "-two",
}

// rawKeyFamily: keys that differ only in bytes that are not valid UTF-8
// (written with the plan's byte escape), and what a sanitiser would make of them
var rawKeyFamily = []string{`r\xe9sum\xe9.txt`, `r\xe8sum\xe8.txt`, `r_sum_.txt`, `r\xff\xfesum.txt`, "r\uFFFDsum\uFFFD.txt"}

var confusable = [][]string{
	{"reports/2024", "reports_2024", "reports-2024", "reports\\2024", "reports%2F2024", "reports 2024", "reports+2024", "Reports/2024", "reports/2024 "},
	{"a/b/c", "a\\b\\c", "a/b\\c", "a_b_c", "a\\b/c", "A/B/C"},
	{"x.txt", "X.TXT", "x%2Etxt", "x.txt.", "x.txt ", "x_txt"},
	{"report", "report.part", "report.tmp", "report.new", "report~", ".report.swp"},
}

// GenPlan generates the plan for one run of a property.
func GenPlan(prop string, seed int64, tier string, guards map[string]bool) *Plan {
	g := &G{rng: rand.New(rand.NewSource(seed)), seed: seed, tier: tier, guards: guards}
	p := &Plan{Property: prop, Seed: seed, Tier: tier}
	switch prop {
	case "C01":
		g.genC01(p)
	case "C02":
		g.genC02(p)
	case "C03":
		g.genC03(p, false)
	case "C04":
		g.genC03(p, true)
	case "C05":
		g.genC05(p, false)
	case "C13":
		g.genC05(p, true)
	case "C06":
		g.genC06(p, false)
	case "C14":
		g.genC06(p, true)
	case "C07":
		g.genC07(p)
	case "C08":
		g.genC08(p)
	case "C09":
		g.genC09(p)
	case "C10":
		g.genC10(p)
	case "C12":
		g.genC12(p)
	case "C15":
		g.genC15(p)
	default:
		panic("no generator for " + prop)
	}
	// drawn last, from its own stream: how the handler sees the end of a body
	p.Config.LateEOF = rand.New(rand.NewSource(seed^0x6c617465)).Intn(4) == 0
	p.Config.DirOrder = p.Config.IsFS() && rand.New(rand.NewSource(seed^0x6469726f)).Intn(2) == 0
	// likewise: requests that carry x-amz-date, and a clock that steps forwards
	// and backwards between operations (NTP corrections, a VM resumed, a test
	// that sets the time source): nothing a property promises depends on the
	// clock being monotonic
	if prop != "C09" {
		tr := rand.New(rand.NewSource(seed ^ 0x74696d65))
		// (not in C08: the server counts every x-amz-* header against the
		// metadata size limit, whose exact boundary C08 probes)
		p.Config.AmzDate = tr.Intn(5) == 0 && prop != "C08"
		if tr.Intn(4) == 0 && p.Config.Mode != "lin" {
			for ci := range p.Clients {
				for oi := range p.Clients[ci] {
					if tr.Intn(12) == 0 {
						d := 1 + tr.Intn(7200)
						if tr.Intn(2) == 0 {
							d = -d
						}
						op := &p.Clients[ci][oi]
						op.Faults = append(append([]Fault{}, op.Faults...), Fault{Kind: "clock", At: d})
					}
				}
			}
		}
	}
	// likewise: bucket-in-the-Host-header addressing next to path style
	if prop != "C09" {
		share := 6
		if prop == "C10" {
			share = 3 // how a key travels is the heart of C10
		}
		p.Config.HostBase = rand.New(rand.NewSource(seed^0x686f7374)).Intn(share) == 0
	}
	return p
}

// ---------------------------------------------------------------- C01

func (g *G) genC01(p *Plan) {
	c := &p.Config
	g.backend(c, allBackends, false)
	c.Buckets = []string{bucketNames[0]}
	c.NoIntegrity = g.chance(0.3)
	c.Frag = g.frag()
	keys := append([]string{}, richKeys...)
	g.rng.Shuffle(len(keys), func(i, j int) { keys[i], keys[j] = keys[j], keys[i] })
	keys = keys[:g.n(1, 3)]
	if g.chance(0.25) {
		// keys that a normalising step (of separators, of case, of escapes)
		// would take for one another: each is a key of its own
		var fam []string
		if fi := g.rng.Intn(len(confusable) + 1); fi == len(confusable) {
			// ... and keys that are not valid UTF-8 (a key is a byte string)
			c.RawKeys = true
			fam = rawKeyFamily
		} else {
			fam = confusable[fi]
		}
		keys = append([]string{}, fam...)
		g.rng.Shuffle(len(keys), func(i, j int) { keys[i], keys[j] = keys[j], keys[i] })
		keys = keys[:g.n(2, 3)]
	}
	if c.IsFS() {
		keys = prefixFree(keys)
	}
	var ops []Op
	nput := g.n(1, 4)
	if len(keys) > 1 && nput < len(keys) {
		nput = len(keys)
	}
	for i := 0; i < nput; i++ {
		k := keys[g.rng.Intn(len(keys))]
		if i < len(keys) {
			k = keys[i]
		}
		op := Op{K: "put", B: c.Buckets[0], Key: k, Body: g.body(g.size()), Meta: g.meta()}
		switch r := g.rng.Intn(10); {
		case r < 4:
			if !c.NoIntegrity && g.chance(0.5) {
				op.MD5 = "ok"
			}
		case r < 6:
			op.Form = true
			if op.Body.Size > 300000 {
				op.Body.Size = g.rng.Intn(70000)
			}
			if g.chance(0.3) {
				op.Status = "sas:" + g.pick("200", "201", "204", "202", "0", "99", "1000", "-1", "abc", "", "404", "2147483648")
			}
		case r < 8:
			op.Chunks = g.chunks(op.Body.Size)
			if op.Meta != nil {
				delete(op.Meta, "Content-Encoding")
			}
		case r < 9:
			op.API = true
			op.Meta = canonicalOnly(op.Meta)
		default:
			if i > 0 {
				src := ops[g.rng.Intn(len(ops))]
				if src.K == "put" {
					op = Op{K: "copy", B: c.Buckets[0], Key: k, SrcB: src.B, SrcKey: src.Key}
					if g.chance(0.6) {
						op.Meta = g.meta() // replacement metadata sent with the copy request
					}
				}
			}
		}
		if g.chance(0.25) {
			op.Faults = append(op.Faults, Fault{Kind: "eofdata"})
		}
		if g.chance(0.15) {
			op.Faults = append(op.Faults, Fault{Kind: "stall", N: g.n(1, 3)})
		}
		if g.chance(0.1) {
			op.Faults = append(op.Faults, Fault{Kind: "clock", At: g.n(-7200, 7200)})
		}
		ops = append(ops, op)
		if c.Persistent() && g.chance(0.3) {
			ops = append(ops, Op{K: "restart"})
		}
		for j, nr := 0, g.n(1, 3); j < nr; j++ {
			rd := Op{K: g.pick("get", "get", "head"), B: c.Buckets[0], Key: keys[g.rng.Intn(len(keys))]}
			if g.chance(0.2) {
				rd.API = true
			} else if g.chance(0.12) {
				rd.Status = "overrides" // response-content-type and friends: this answer only
			}
			if g.chance(0.3) {
				rd.Faults = append(rd.Faults, Fault{Kind: "slowreader", N: g.n(1, 3)})
			}
			if c.FS == "simfs" && g.chance(0.3) {
				rd.Faults = append(rd.Faults, Fault{Kind: "shortread", N: g.n(1, 5000)})
			}
			ops = append(ops, rd)
		}
		if g.chance(0.3) && !c.RawKeys {
			ops = append(ops, Op{K: "list", B: c.Buckets[0]})
		}
	}
	if g.chance(0.006) {
		// an object beyond what a server moves through memory in one piece,
		// copied onto itself (the way to change an object's metadata) and to
		// another key
		b, k := c.Buckets[0], keys[0]
		big := g.body(32<<20 + g.pick2(0, 1, 4097, 1<<20))
		ops = []Op{{K: "put", B: b, Key: k, Body: big, Meta: g.meta()},
			{K: "copy", B: b, Key: k, SrcB: b, SrcKey: k, Meta: g.meta()},
			{K: g.pick("get", "head"), B: b, Key: k},
			{K: "copy", B: b, Key: "copy-of-big", SrcB: b, SrcKey: k},
			{K: "get", B: b, Key: "copy-of-big"}}
	}
	p.Clients = [][]Op{ops}
	c.Policy = simrt.Policy{Kind: "seq"}
}

func canonicalOnly(m map[string]string) map[string]string { return m }

// prefixFree drops keys that are a path-prefix (directory) of another key.
func prefixFree(keys []string) []string {
	var out []string
	for _, k := range keys {
		ok := true
		for _, o := range out {
			if strings.HasPrefix(k, o+"/") || strings.HasPrefix(o, k+"/") || k == o {
				ok = false
			}
		}
		if ok {
			out = append(out, k)
		}
	}
	return out
}

// chunks draws an aws-chunked chunk-size sequence for a payload.
func (g *G) chunks(size int) []int {
	if size > 65536 {
		// tiny chunks of a large payload cost millions of steps and add nothing
		return [][]int{{size + 1}, {8192}, {32768 + g.n(-1, 1), 65536 + g.n(0, 5000)}, {4096, 100000}}[g.rng.Intn(4)]
	}
	switch g.rng.Intn(6) {
	case 0:
		return []int{size + 1} // one chunk
	case 1:
		return []int{1}
	case 2:
		return []int{g.n(1, 17)}
	case 3:
		return []int{8192}
	case 4:
		return []int{32768 + g.n(-1, 1), 65536 + g.n(0, 5000)}
	default:
		var out []int
		for i := 0; i < 4; i++ {
			out = append(out, g.n(1, size/2+2))
		}
		return out
	}
}

// ---------------------------------------------------------------- C02

func (g *G) genC02(p *Plan) {
	c := &p.Config
	c.Faulty = g.chance(0.25)
	g.backend(c, allBackends, c.Faulty)
	if c.Faulty && !c.IsFS() {
		c.Faulty = false
	}
	c.AutoBucket = c.Backend != "singlefs" && g.chance(0.3)
	c.Frag = g.frag()
	nb := g.n(1, 3)
	if c.Backend == "singlefs" {
		nb = 1
	}
	universe := bucketNames[:nb]
	if nb == 2 && g.chance(0.5) {
		universe = []string{bucketNames[0], bucketNames[2]}
	}
	c.Buckets = universe[:g.n(1, nb)]
	keys := append([]string{}, plainKeys[g.rng.Intn(len(plainKeys))]...)
	keys = keys[:g.n(1, len(keys)):len(keys)]
	keys = append([]string{}, keys...)
	if g.chance(0.3) {
		// path-prefix keys: fine on opaque backends; a file-system backend
		// holds one of the two at a time and refuses the newcomer
		keys = append(keys, "a", "a/b", "a/b/c/d")
	}
	bkt := func() string {
		if g.chance(0.08) && c.Backend != "singlefs" {
			return "bkt-zzz" // never created
		}
		return universe[g.rng.Intn(len(universe))]
	}
	key := func() string { return keys[g.rng.Intn(len(keys))] }
	var ops []Op
	n := g.n(10, 40)
	for i := 0; i < n; i++ {
		var op Op
		switch r := g.rng.Intn(100); {
		case r < 28:
			op = Op{K: "put", B: bkt(), Key: key(), Body: g.body(g.smallSize()), Meta: g.meta()}
			if g.chance(0.1) {
				op.Body.Size = g.size()
			}
		case r < 43:
			op = Op{K: "get", B: bkt(), Key: key()}
		case r < 50:
			op = Op{K: "head", B: bkt(), Key: key()}
		case r < 62:
			op = Op{K: "del", B: bkt(), Key: key()}
		case r < 68:
			op = Op{K: "delmulti", B: bkt(), Quiet: g.chance(0.3)}
			for j, m := 0, g.n(1, 3); j < m; j++ {
				op.Keys = append(op.Keys, KeyRef{Key: key()})
			}
		case r < 78:
			op = Op{K: "copy", B: bkt(), Key: key(), SrcB: bkt(), SrcKey: key()}
			if g.chance(0.25) {
				op.SrcB, op.SrcKey = op.B, op.Key // self-copy
			} else if g.chance(0.4) {
				op.Meta = g.meta()
			}
		case r < 82:
			op = Op{K: "mkbucket", B: bkt()}
		case r < 86:
			op = Op{K: "rmbucket", B: bkt()}
			if g.chance(0.15) || (c.Faulty && g.chance(0.3)) {
				op.Status = "force"
				if c.Faulty && c.FS == "simfs" && g.chance(0.6) {
					// many unlinks, one of which fails
					op.Faults = append(op.Faults, Fault{Kind: "eio", At: g.n(1, 24)})
				}
			}
		case r < 89:
			op = Op{K: "headbucket", B: bkt()}
			if g.chance(0.3) {
				op = Op{K: g.pick("get", "head"), B: bkt(), Key: key(), Status: "since-epoch"}
			}
		case r < 92:
			op = Op{K: "lsbuckets"}
		case r < 95:
			op = Op{K: "list", B: bkt()}
		case r < 97:
			op = Op{K: "fullcheck"}
		default:
			if c.Persistent() {
				op = Op{K: "restart"}
			} else {
				op = Op{K: "get", B: bkt(), Key: key()}
			}
		}
		if (op.K == "put" || op.K == "get" || op.K == "head" || op.K == "del") && g.chance(0.12) {
			op.API = true
		}
		if c.Faulty && c.FS == "simfs" && (op.K == "put" || op.K == "del" || op.K == "delmulti" || op.K == "copy") && g.chance(0.15) {
			op.Faults = append(op.Faults, Fault{Kind: g.pick("eio", "eio", "enospc"), At: g.n(1, 14), N: g.n(0, 40)})
		}
		ops = append(ops, op)
	}
	p.Clients = [][]Op{ops}
	c.Policy = simrt.Policy{Kind: "seq"}
}

// ---------------------------------------------------------------- C03 / C04

// listKeys draws a key set over the alphabet {a, b, /, -} ('-' sorts before
// '/', which separates byte order from directory order), not starting or
// ending with the delimiter, without empty segments.
func (g *G) listKeys(n int, fs bool) []string {
	set := map[string]bool{}
	alpha := []string{"a", "b", "/", "-", "a", "b"}
	for tries := 0; len(set) < n && tries < 200; tries++ {
		l := g.n(1, 5)
		var sb strings.Builder
		for i := 0; i < l; i++ {
			sb.WriteString(alpha[g.rng.Intn(len(alpha))])
		}
		k := sb.String()
		if strings.HasPrefix(k, "/") || strings.HasSuffix(k, "/") || strings.Contains(k, "//") {
			continue
		}
		set[k] = true
	}
	if g.chance(0.3) {
		for _, k := range []string{"ünï/cödé", "ünï/x", "zz/é", "q r/s+t"} {
			set[k] = true
		}
	}
	if g.chance(0.4) {
		// bytes whose base64 form uses the two characters that differ between
		// the standard and the URL alphabet, multi-byte runes, characters that
		// need escaping in a query string
		pool := []string{"ba~", "ba~/x", "img/a?", "img/a>b", "fotos/ß→.txt", "tilde~~", "q?", "a~b/c~d", "日本/語", "x&y=z", "pl+us", "pc%41",
			// runes that share the UTF-8 lead byte of the delimiter 'é'
			"aéb", "aéc", "aêc", "aüd", "bêy", "xéy/z", "aèb"}
		for i, n := 0, g.n(1, 6); i < n; i++ {
			set[pool[g.rng.Intn(len(pool))]] = true
		}
	}
	if g.chance(0.15) {
		// a delimiter of several bytes, in keys that contain it more than once
		for _, k := range []string{"t::a::1", "t::a::2", "t::b", "t:c", "u::v::w", "t::a:3"} {
			set[k] = true
		}
	}
	var keys []string
	for k := range set {
		keys = append(keys, k)
	}
	sort.Strings(keys)
	g.rng.Shuffle(len(keys), func(i, j int) { keys[i], keys[j] = keys[j], keys[i] })
	if fs {
		keys = prefixFree(keys)
	}
	return keys
}

func properPrefixes(keys []string) []string {
	set := map[string]bool{"": true}
	for _, k := range keys {
		for i := 1; i < len(k); i++ {
			if k[i]&0xC0 != 0x80 { // rune boundary
				set[k[:i]] = true
			}
		}
		set[k] = true
	}
	var out []string
	for s := range set {
		if !strings.HasPrefix(s, "/") {
			out = append(out, s)
		}
	}
	sort.Strings(out)
	return out
}

func (g *G) genC03(p *Plan, paging bool) {
	c := &p.Config
	c.Faulty = !paging && g.chance(0.2)
	allowed := allBackends
	if paging && g.chance(0.6) {
		allowed = []string{"mem"}
	}
	g.backend(c, allowed, c.Faulty)
	if c.Faulty && !c.IsFS() {
		c.Faulty = false
	}
	c.Buckets = []string{bucketNames[0]}
	c.PageErr = paging && g.chance(0.3)
	c.Versioned = c.Backend == "mem" && g.chance(0.3)
	b := c.Buckets[0]
	if (paging || c.Backend != "mem") && !c.Faulty && g.chance(0.012) {
		g.genLargeBucket(p, b, paging)
		return
	}
	keys := g.listKeys(g.n(2, 14), c.IsFS())
	if len(keys) == 0 {
		keys = []string{"a"}
	}
	var ops []Op
	nmut := g.n(len(keys), len(keys)*2+4)
	for i := 0; i < nmut; i++ {
		k := keys[g.rng.Intn(len(keys))]
		if i < len(keys) {
			k = keys[i]
		}
		if i >= len(keys) && g.chance(0.4) {
			op := Op{K: "del", B: b, Key: k}
			if g.chance(0.3) {
				// one batch that may empty several (sibling) directories at once
				op = Op{K: "delmulti", B: b, Quiet: g.chance(0.3), Keys: []KeyRef{{Key: k}}}
				for j, m := 0, g.n(1, 4); j < m; j++ {
					op.Keys = append(op.Keys, KeyRef{Key: keys[g.rng.Intn(len(keys))]})
				}
			}
			if c.Faulty && g.chance(0.3) {
				op.Faults = []Fault{{Kind: "eio", At: g.n(1, 6)}}
			}
			ops = append(ops, op)
		} else {
			op := Op{K: "put", B: b, Key: k, Body: g.body(g.rng.Intn(60))}
			if c.Faulty && g.chance(0.25) {
				op.Faults = []Fault{{Kind: g.pick("eio", "enospc"), At: g.n(1, 12), N: g.n(0, 20)}}
			}
			ops = append(ops, op)
		}
	}
	if c.Faulty {
		// an overwrite of the only object of a directory, hit by a disk error
		// after the previous object was unlinked: no empty directory may stay
		for _, k := range keys {
			if strings.Contains(k, "/") && g.chance(0.5) {
				ops = append(ops, Op{K: "put", B: b, Key: k, Body: g.body(g.rng.Intn(60))},
					Op{K: "put", B: b, Key: k, Body: g.body(g.rng.Intn(60)), Faults: []Fault{{Kind: g.pick("eio", "eio", "enospc"), At: g.n(4, 14), N: g.n(0, 20)}}})
			}
		}
	}
	if c.Persistent() && g.chance(0.2) {
		ops = append(ops, Op{K: "restart"})
	}
	prefixes := properPrefixes(keys)
	// the property's domain: keys neither start nor end with the delimiter
	delims := []string{""}
	cands := []string{"/"}
	if !c.IsFS() {
		cands = append(cands, "-", "é", "b", "::", "::")
	}
	for _, d := range cands {
		ok := true
		for _, k := range keys {
			if strings.HasPrefix(k, d) || strings.HasSuffix(k, d) {
				ok = false
			}
		}
		if ok {
			delims = append(delims, d, d)
		}
	}
	nl := g.n(5, 20)
	for i := 0; i < nl; i++ {
		op := Op{K: "list", B: b, V2: g.chance(0.5)}
		switch r := g.rng.Intn(10); {
		case r < 3:
		case r < 9:
			op.Prefix = prefixes[g.rng.Intn(len(prefixes))]
		default:
			op.Prefix = "nomatch-" + g.pick("x", "zz")
			if g.chance(0.5) {
				// a prefix that names a stored key as if it were a directory
				op.Prefix = keys[g.rng.Intn(len(keys))] + g.pick("/", "/x", "-")
			}
		}
		op.Delim = delims[g.rng.Intn(len(delims))]
		if op.Delim != "" && strings.HasPrefix(op.Prefix, op.Delim) {
			op.Prefix = ""
		}
		if paging {
			op.Max = g.n(1, len(keys)+1)
			if g.chance(0.08) {
				op.Max = g.pick2(999, 1000, 1001, 100000) // at and beyond the default page size
			}
			switch r := g.rng.Intn(10); {
			case r < 6:
				op.K = "walk"
			case r < 8:
				op.K = "walk"
				op.HasMk = true
				op.Marker = g.markerNear(keys)
				op.Sticky = g.chance(0.5)
			default:
				op.HasMk = true
				op.Marker = g.markerNear(keys)
			}
		}
		ops = append(ops, op)
		if g.chance(0.1) {
			ops = append(ops, Op{K: "del", B: b, Key: keys[g.rng.Intn(len(keys))]})
		}
	}
	p.Clients = [][]Op{ops}
	c.Policy = simrt.Policy{Kind: "seq"}
}

// genLargeBucket: a bucket with more keys than the protocol's page limit of
// 1000 (a limit that code paths written for "a few dozen keys" never meet):
// whole pages of 1000, a common prefix that rolls up more than a page worth of
// keys with visible entries behind it, markers in the middle of the run.
func (g *G) genLargeBucket(p *Plan, b string, paging bool) {
	c := &p.Config
	c.Versioned = false
	n := g.pick2(1000, 1001, 1203, 2000, 2001, 2500)
	var ops []Op
	small := []string{"a", "bulk-", "bulk0", "z", "z/y"}
	for _, k := range small {
		if g.chance(0.7) {
			ops = append(ops, Op{K: "put", B: b, Key: k, Body: g.body(g.rng.Intn(40))})
		}
	}
	ops = append(ops, Op{K: "bulk", B: b, Max: n})
	g.rng.Shuffle(len(ops), func(i, j int) { ops[i], ops[j] = ops[j], ops[i] })
	for i, nl := 0, g.n(3, 7); i < nl; i++ {
		op := Op{K: "walk", B: b, V2: g.chance(0.5)}
		switch g.rng.Intn(6) {
		case 0: // the roll-up of the whole run is one entry, the entries behind it must follow
			op.Delim = "/"
			op.Max = g.n(1, 3)
		case 1:
			op.Max = g.pick2(0, 700, 999, 1000, 1001, 100000)
		case 2:
			op.Prefix = g.pick("bulk/", "bulk/0", "bulk/00", "bulk", "b")
			op.Max = g.pick2(0, 400, 1000, 1001)
			op.Delim = g.pick("", "/") // one directory with more entries than a readdir batch
		case 3:
			op.HasMk = true
			op.Marker = fmt.Sprintf("bulk/%05d", g.rng.Intn(n))
			op.Max = g.pick2(0, 500, 1000, 5000)
			op.K = g.pick("walk", "list")
		case 4:
			op.K = "list"
			op.Delim = g.pick("", "/")
		default:
			op.K = "list"
			op.Max = g.pick2(1, 999, 1000, 1001, 2147483647)
			op.Delim = g.pick("", "/")
		}
		if !paging {
			op.K, op.Max, op.HasMk, op.Marker = "list", 0, false, ""
		}
		ops = append(ops, op)
		if g.chance(0.3) {
			ops = append(ops, Op{K: "del", B: b, Key: fmt.Sprintf("bulk/%05d", g.rng.Intn(n))})
		}
	}
	p.Clients = [][]Op{ops}
	c.Policy = simrt.Policy{Kind: "seq"}
}

// markerNear draws a marker: an existing key, a string inside a common
// prefix, one absent from the bucket, one beyond the end.
func (g *G) markerNear(keys []string) string {
	k := keys[g.rng.Intn(len(keys))]
	switch g.rng.Intn(5) {
	case 0:
		return k
	case 1:
		return k + "0"
	case 2:
		if i := strings.Index(k, "/"); i > 0 {
			return k[:i+1]
		}
		return k[:len(k)/2+1]
	case 3:
		return "zzzz-beyond"
	default:
		return "-" // before everything
	}
}

// ---------------------------------------------------------------- C05 / C13

func (g *G) genC05(p *Plan, listing bool) {
	c := &p.Config
	c.Backend = "mem"
	c.ClockStepMs = 7
	c.Buckets = []string{bucketNames[0]}
	c.Frag = g.pick("whole", "random")
	b := c.Buckets[0]
	keys := []string{"k1", "k2", "dir/k3", "dir/k4", "a-b"}[:g.n(1, 3)]
	if listing {
		keys = []string{"k1", "k2", "dir/k3", "dir/k4", "a-b"}[:g.n(2, 5)]
	}
	key := func() string { return keys[g.rng.Intn(len(keys))] }
	var ops []Op
	state := ""
	if g.chance(0.7) {
		// start never-versioned with a few objects, then enable
		for i, n := 0, g.n(0, 3); i < n; i++ {
			ops = append(ops, Op{K: "put", B: b, Key: key(), Body: g.body(g.smallSize())})
		}
	}
	if listing && g.chance(0.15) {
		// stay never-versioned
	} else {
		ops = append(ops, Op{K: "setver", B: b, Status: "Enabled"})
		state = "Enabled"
	}
	n := g.n(8, 40)
	for i := 0; i < n; i++ {
		var op Op
		switch r := g.rng.Intn(100); {
		case r < 30:
			op = Op{K: "put", B: b, Key: key(), Body: g.body(g.smallSize()), Meta: g.meta()}
		case r < 42:
			op = Op{K: "del", B: b, Key: key()}
		case r < 56:
			op = Op{K: "del", B: b, Key: key(), Ver: g.verRef()}
			if g.guards["delete-current-version"] {
				op.Ver = 1 // oldest known id: rarely the current one
			}
		case r < 62:
			op = Op{K: "delmulti", B: b}
			for j, m := 0, g.n(1, 3); j < m; j++ {
				kr := KeyRef{Key: key()}
				if g.chance(0.6) {
					kr.Ver = g.verRef()
				}
				op.Keys = append(op.Keys, kr)
			}
		case r < 72:
			op = Op{K: "get", B: b, Key: key()}
		case r < 82:
			op = Op{K: "get", B: b, Key: key(), Ver: g.verRef()}
			if g.chance(0.12) {
				op.Status = "overrides"
			}
		case r < 90:
			op = Op{K: "head", B: b, Key: key(), Ver: g.verRef()}
			if g.chance(0.12) {
				op.Status = "overrides"
			}
		case r < 95:
			if state == "Enabled" {
				op = Op{K: "setver", B: b, Status: "Suspended"}
				state = "Suspended"
			} else {
				op = Op{K: "setver", B: b, Status: "Enabled"}
				state = "Enabled"
			}
			if state == "Suspended" && g.guards["suspended-writes"] {
				op = Op{K: "get", B: b, Key: key()}
				state = "Enabled"
			} else if !listing && g.chance(0.15) {
				// a configuration that does not name a status, then the state
				// the run wanted anyway
				ops = append(ops, Op{K: "setver", B: b, Status: g.pick("nostatus", "empty")})
				if g.chance(0.5) {
					ops = append(ops, Op{K: "put", B: b, Key: key(), Body: g.body(g.smallSize())}, Op{K: "del", B: b, Key: key()})
				}
			}
		default:
			op = Op{K: "lsversions", B: b}
			if !listing && g.chance(0.3) {
				// a bucket whose keys all read as deleted still holds their
				// history: it is not empty
				op = Op{K: "rmbucket", B: b}
			}
		}
		ops = append(ops, op)
		if !listing && (op.K == "put" || op.K == "del" || op.K == "delmulti" || op.K == "setver") && g.chance(0.5) {
			// re-read every known version after the mutation
			for _, k := range keys {
				for v := 1; v <= 4; v++ {
					ops = append(ops, Op{K: g.pick("get", "head"), B: b, Key: k, Ver: v})
				}
				ops = append(ops, Op{K: "get", B: b, Key: k})
			}
		}
	}
	if listing && g.chance(0.012) {
		// more versions than a page holds: a thousand keys of one version
		// each between keys with several versions and delete markers
		big := []Op{{K: "setver", B: b, Status: "Enabled"}}
		for _, k := range []string{"a-first", "z-last"} {
			for i, n := 0, g.n(1, 4); i < n; i++ {
				big = append(big, Op{K: "put", B: b, Key: k, Body: g.body(g.smallSize())})
			}
			if g.chance(0.4) {
				big = append(big, Op{K: "del", B: b, Key: k})
			}
		}
		big = append(big, Op{K: "bulk", B: b, Max: g.pick2(996, 1000, 1001, 1203)})
		for i, nl := 0, g.n(3, 6); i < nl; i++ {
			op := Op{K: g.pick("lsversions", "walkversions"), B: b}
			switch g.rng.Intn(4) {
			case 0:
				op.Max = g.pick2(0, 999, 1000, 1001, 100000)
			case 1:
				op.Delim = "/"
				op.Max = g.pick2(0, 1, 2, 5)
			case 2:
				op.Prefix = g.pick("bulk/", "bulk/00", "b", "z")
				op.Max = g.pick2(0, 500, 1000)
			default:
				op.Max = g.pick2(400, 700)
			}
			if op.K == "lsversions" && op.Max > 0 && op.Max < 100 {
				op.K = "walkversions"
			}
			big = append(big, op)
		}
		ops = big
	} else if listing {
		prefixes := properPrefixes(keys)
		for i, nl := 0, g.n(4, 14); i < nl; i++ {
			op := Op{K: "lsversions", B: b}
			if g.chance(0.6) {
				op.Prefix = prefixes[g.rng.Intn(len(prefixes))]
			}
			if g.chance(0.4) {
				op.Delim = g.pick("/", "-")
				if strings.HasPrefix(op.Prefix, op.Delim) {
					op.Prefix = ""
				}
			}
			switch r := g.rng.Intn(10); {
			case r < 4:
			case r < 8:
				op.K = "walkversions"
				op.Max = g.n(1, 6)
				op.Delim = ""
			default:
				op.Max = g.n(1, 4)
				op.HasMk = true
				op.Marker = key()
				op.Ver = g.verRef()
				op.Delim = ""
				op.Prefix = ""
			}
			ops = append(ops, op)
			if g.chance(0.15) {
				ops = append(ops, Op{K: "put", B: b, Key: key(), Body: g.body(g.smallSize())})
			}
		}
	}
	p.Clients = [][]Op{ops}
	c.Policy = simrt.Policy{Kind: "seq"}
}

func (g *G) verRef() int {
	if g.chance(0.08) {
		return -1 // unknown id
	}
	return g.n(1, 6)
}

// ---------------------------------------------------------------- C06 / C14

var partNumbers = []int{1, 2, 3, 7, 100, 9999, 10000}

func (g *G) genC06(p *Plan, listing bool) {
	c := &p.Config
	c.Faulty = !listing && g.chance(0.2)
	g.backend(c, allBackends, c.Faulty)
	if c.Faulty && (!c.IsFS() || c.FS != "simfs") {
		c.Faulty = false
	}
	if listing {
		g.backend(c, []string{"mem", "mem", "bolt", "multifs"}, false)
	}
	c.Buckets = []string{bucketNames[0]}
	c.Frag = g.frag()
	b := c.Buckets[0]
	keys := []string{"big", "dir/obj", "dir/other", "zeta"}[:g.n(1, 2)]
	if listing {
		keys = []string{"big", "dir/obj", "dir/other", "zeta", "a-b"}[:g.n(2, 5)]
	}
	key := func() string { return keys[g.rng.Intn(len(keys))] }
	var ops []Op
	if g.chance(0.4) {
		ops = append(ops, Op{K: "put", B: b, Key: key(), Body: g.body(g.smallSize()), Meta: g.meta()})
	}
	nup := g.n(1, 3)
	if listing {
		nup = g.n(2, 6)
	}
	for i := 0; i < nup; i++ {
		ops = append(ops, Op{K: "mpu-init", B: b, Key: key(), Meta: g.meta()})
	}
	// a file-system backend refuses to complete an upload whose key lies below
	// a stored key; the upload stays pending, whole, and completes once the
	// key in the way is gone
	deep := -1
	if c.IsFS() && !listing && g.chance(0.2) {
		ops = append(ops, Op{K: "put", B: b, Key: "way/in", Body: g.body(g.smallSize())},
			Op{K: "mpu-init", B: b, Key: "way/in/deeper", Meta: g.meta()})
		deep = nup
		nup++
	}
	uploaded := map[int][]int{}
	var partBodies []*BodySpec
	n := g.n(10, 30)
	for i := 0; i < n; i++ {
		up := g.rng.Intn(nup)
		if deep >= 0 && g.chance(0.3) {
			up = deep
		}
		var op Op
		switch r := g.rng.Intn(100); {
		case deep >= 0 && r < 8:
			op = Op{K: g.pick("del", "put", "del"), B: b, Key: "way/in"}
			if op.K == "put" {
				op.Body = g.body(g.smallSize())
			}
		case r < 45:
			pn := partNumbers[g.rng.Intn(len(partNumbers))]
			if g.chance(0.2) {
				pn = g.n(1, 10000)
			}
			op = Op{K: "mpu-part", Up: up, Part: pn, Body: g.body(1 + g.smallSize())}
			if g.chance(0.05) {
				op.Body.Size = 1 + g.size()
			}
			if len(partBodies) > 0 && g.chance(0.15) {
				// the very bytes an earlier part was uploaded with (zero-filled
				// or repeated blocks; a retry): content is no identity
				cp := *partBodies[g.rng.Intn(len(partBodies))]
				op.Body = &cp
			}
			partBodies = append(partBodies, op.Body)
			uploaded[up] = append(uploaded[up], pn)
		case r < 62:
			op = Op{K: "mpu-complete", Up: up, Parts: g.partList(uploaded[up])}
			if c.Faulty && g.chance(0.4) {
				op.Faults = []Fault{{Kind: g.pick("eio", "enospc"), At: g.n(1, 12), N: g.n(0, 10)}}
			}
		case r < 68:
			op = Op{K: "mpu-abort", Up: up}
		case r < 78:
			op = Op{K: "get", B: b, Key: key()}
		case r < 86:
			op = Op{K: "mpu-lsparts", Up: up}
		case r < 90:
			op = Op{K: "mpu-lsuploads", B: b}
		case r < 94:
			op = Op{K: "mpu-init", B: b, Key: key(), Meta: g.meta()}
			nup++
		case r < 97:
			op = Op{K: "mpu-part", Up: -1, Part: 1, Body: g.body(10), B: b, Key: key()}
		default:
			op = Op{K: "mpu-part", Up: up, Part: g.pick2(0, 10001, -1), Body: g.body(10)}
		}
		ops = append(ops, op)
		if listing && g.chance(0.5) {
			lo := Op{B: b, Up: g.rng.Intn(nup)}
			switch r := g.rng.Intn(10); {
			case r < 2:
				lo.K = "mpu-lsparts"
			case r < 4:
				lo.K = "mpu-walkparts"
				lo.Max = g.n(1, 4)
			case r < 6:
				lo.K = "mpu-lsparts"
				lo.HasMk = true
				lo.Part = g.pick2(0, 1, 2, 3, 7, 99, 100, 5000, 9999, 10000, 20000)
				if g.chance(0.5) {
					lo.Max = g.n(1, 3)
				}
			case r < 8:
				lo.K = "mpu-lsuploads"
				if g.chance(0.5) {
					lo.Prefix = g.pick("d", "dir/", "b", "z", "dir/o")
				}
				if g.chance(0.4) {
					lo.Delim = "/"
				}
			default:
				lo.K = "mpu-walkuploads"
				lo.Max = g.n(1, 4)
				if g.chance(0.3) {
					lo.Prefix = g.pick("d", "dir/", "b")
				}
				if g.chance(0.3) {
					lo.Delim = "/"
				}
			}
			ops = append(ops, lo)
		}
	}
	if g.chance(0.008) {
		// more parts, or more pending uploads, than the protocol's page of 1000
		ops = ops[:0]
		if g.chance(0.6) {
			ops = append(ops, Op{K: "mpu-init", B: b, Key: "big", Meta: g.meta()})
			np := g.pick2(999, 1000, 1001, 1203)
			stride := g.pick2(1, 1, 7)
			var refs []PartRef
			for i := 1; i <= np; i++ {
				ops = append(ops, Op{K: "mpu-part", Up: 0, Part: i * stride, Body: g.body(1 + g.rng.Intn(3))})
				refs = append(refs, PartRef{N: i * stride})
			}
			for i, nl := 0, g.n(3, 6); i < nl; i++ {
				lo := Op{K: g.pick("mpu-lsparts", "mpu-walkparts"), Up: 0, Max: g.pick2(0, 0, 400, 999, 1000, 1001, 5000)}
				if lo.K == "mpu-lsparts" && g.chance(0.4) {
					lo.HasMk, lo.Part = true, g.pick2(1, 500*stride, 999*stride, 1000*stride, 1001*stride)
				}
				ops = append(ops, lo)
			}
			if !listing {
				ops = append(ops, Op{K: "mpu-complete", Up: 0, Parts: refs}, Op{K: "get", B: b, Key: "big"})
			}
		} else {
			nu := g.pick2(999, 1000, 1001, 1100)
			for i := 0; i < nu; i++ {
				ops = append(ops, Op{K: "mpu-init", B: b, Key: g.pick("big", "dir/obj", "zeta")})
			}
			for i, nl := 0, g.n(3, 6); i < nl; i++ {
				lo := Op{K: g.pick("mpu-lsuploads", "mpu-walkuploads"), B: b, Max: g.pick2(0, 0, 300, 999, 1000, 1001)}
				if g.chance(0.3) {
					lo.Prefix = g.pick("d", "dir/", "b", "z")
				}
				if g.chance(0.3) {
					lo.Delim = "/"
				}
				ops = append(ops, lo)
				if g.chance(0.5) {
					ops = append(ops, Op{K: "mpu-abort", Up: g.rng.Intn(nu)})
				}
			}
		}
	}
	bigP := 0.008
	if g.thorough() {
		bigP = 0.03
	}
	if !listing && c.Faulty && g.chance(bigP) {
		// an upload of several tens of megabytes whose complete fails on a
		// disk error and is then retried: what the retry stores is what the
		// parts held before the failure
		ops = ops[:0]
		ops = append(ops, Op{K: "mpu-init", B: b, Key: "big", Meta: g.meta()})
		np := g.n(5, 6)
		var refs []PartRef
		for n := 1; n <= np; n++ {
			ops = append(ops, Op{K: "mpu-part", Up: 0, Part: n, Body: g.body(7<<20 + g.rng.Intn(1000))})
			refs = append(refs, PartRef{N: n})
		}
		ops = append(ops, Op{K: "mpu-complete", Up: 0, Parts: refs, Faults: []Fault{{Kind: g.pick("eio", "enospc"), At: g.n(1, 12), N: g.n(0, 10)}}},
			Op{K: "mpu-lsparts", Up: 0}, Op{K: "mpu-complete", Up: 0, Parts: refs}, Op{K: "get", B: b, Key: "big"})
	}
	p.Clients = [][]Op{ops}
	c.Policy = simrt.Policy{Kind: "seq"}
}

func (g *G) pick2(xs ...int) int { return xs[g.rng.Intn(len(xs))] }

// partList draws a complete request: ascending-valid, subset, permutation,
// with an unknown number, or with a stale/garbage ETag.
func (g *G) partList(have []int) []PartRef {
	set := map[int]bool{}
	for _, n := range have {
		set[n] = true
	}
	var ns []int
	for n := range set {
		ns = append(ns, n)
	}
	sort.Ints(ns)
	if len(ns) == 0 {
		return []PartRef{{N: 1}}
	}
	var out []PartRef
	switch r := g.rng.Intn(10); {
	case r < 4: // all, ascending
		for _, n := range ns {
			out = append(out, PartRef{N: n})
		}
	case r < 6: // subset
		for _, n := range ns {
			if g.chance(0.6) {
				out = append(out, PartRef{N: n})
			}
		}
		if len(out) == 0 {
			out = append(out, PartRef{N: ns[0]})
		}
	case r < 7: // permutation
		for _, n := range ns {
			out = append(out, PartRef{N: n})
		}
		if len(out) > 1 && !g.guards["complete-out-of-order"] {
			i := g.rng.Intn(len(out) - 1)
			out[i], out[i+1] = out[i+1], out[i]
		}
	case r < 8: // unknown number
		for _, n := range ns {
			out = append(out, PartRef{N: n})
		}
		out = append(out, PartRef{N: ns[len(ns)-1] + 1})
	default: // wrong etag
		for _, n := range ns {
			out = append(out, PartRef{N: n})
		}
		out[g.rng.Intn(len(out))].ETag = g.pick("stale", "garbage")
	}
	return out
}
