package engine

import (
	"fmt"
	"net/http"
	"os"
	"path/filepath"
	"time"

	"simrt"
	"verif/sim/simfs"

	"github.com/johannesboyne/gofakes3"
	"github.com/johannesboyne/gofakes3/backend/s3afero"
	"github.com/johannesboyne/gofakes3/backend/s3bolt"
	"github.com/johannesboyne/gofakes3/backend/s3mem"
	"github.com/spf13/afero"
	bolt "go.etcd.io/bbolt"
)

// Clock is the simulated clock (gofakes3.TimeSource).  Every reading advances
// it by a fixed quantum, so two readings never coincide and the sequence of
// readings is a pure function of the schedule.
type Clock struct {
	t     time.Time
	step  time.Duration
	Reads int64
	start time.Time
}

func NewClock(stepMs int) *Clock {
	if stepMs <= 0 {
		stepMs = 7
	}
	t0 := time.Date(2026, 3, 1, 12, 0, 0, 0, time.UTC)
	return &Clock{t: t0, start: t0, step: time.Duration(stepMs) * time.Millisecond}
}

func (c *Clock) Now() time.Time {
	c.Reads++
	c.t = c.t.Add(c.step)
	return c.t
}
func (c *Clock) Since(t time.Time) time.Duration { return c.t.Sub(t) }
func (c *Clock) Jump(d time.Duration)            { c.t = c.t.Add(d) }
func (c *Clock) Elapsed() time.Duration          { return c.t.Sub(c.start) }

// Env is one server incarnation plus the storage it runs on.
type Env struct {
	Cfg     Config
	Seed    int64
	Dir     string // scratch directory (bolt file, real-directory fs)
	Clock   *Clock
	SimFS   *simfs.FS
	baseFs  afero.Fs
	BoltDB  *bolt.DB
	Backend gofakes3.Backend
	Faker   *gofakes3.GoFakeS3
	Handler http.Handler
	Incarn  int
}

func mtimeRes(s string) time.Duration {
	switch s {
	case "us":
		return time.Microsecond
	case "s":
		return time.Second
	case "2s":
		return 2 * time.Second
	}
	return time.Nanosecond
}

// NewEnv builds fresh storage and the first server incarnation.
func NewEnv(cfg Config, seed int64, dir string) (*Env, error) {
	e := &Env{Cfg: cfg, Seed: seed, Dir: dir, Clock: NewClock(cfg.ClockStepMs)}
	switch cfg.Backend {
	case "multifs", "singlefs":
		switch cfg.FS {
		case "simfs", "":
			e.SimFS = simfs.New(e.Clock.Now, mtimeRes(cfg.MtimeRes))
			if cfg.DirOrder {
				e.SimFS.DirSeed = uint64(seed)*2 + 1
			}
			e.baseFs = e.SimFS
		case "memmap":
			e.baseFs = &clockFs{Fs: afero.NewMemMapFs(), now: e.Clock.Now}
		case "osdir":
			d := filepath.Join(dir, "fsroot")
			if err := os.MkdirAll(d, 0700); err != nil {
				return nil, err
			}
			e.baseFs = &clockFs{Fs: afero.NewBasePathFs(afero.NewOsFs(), d), now: e.Clock.Now}
		default:
			return nil, fmt.Errorf("unknown fs kind %q", cfg.FS)
		}
	}
	if err := e.open(); err != nil {
		return nil, err
	}
	return e, nil
}

// OpenOnSimFS builds an incarnation on an existing simfs tree (crash snapshot).
func OpenOnSimFS(cfg Config, seed int64, fs *simfs.FS, clock *Clock) (*Env, error) {
	e := &Env{Cfg: cfg, Seed: seed, Clock: clock, SimFS: fs, baseFs: fs}
	fs.Now = clock.Now
	if err := e.open(); err != nil {
		return nil, err
	}
	return e, nil
}

// OpenOnBoltFile builds an incarnation on a copy of a bolt database file.
func OpenOnBoltFile(cfg Config, seed int64, dir string, clock *Clock) (*Env, error) {
	e := &Env{Cfg: cfg, Seed: seed, Clock: clock, Dir: dir}
	if err := e.open(); err != nil {
		return nil, err
	}
	return e, nil
}

func (e *Env) open() error {
	cfg := e.Cfg
	e.Incarn++
	switch cfg.Backend {
	case "mem":
		e.Backend = s3mem.New(s3mem.WithTimeSource(e.Clock), s3mem.WithVersionSeed(e.Seed))
	case "bolt":
		bopts := &bolt.Options{Timeout: time.Second}
		if cfg.BoltMmap {
			// the embedding application chooses the options of the *bolt.DB it
			// hands to s3bolt.New; with a large initial mapping the file never
			// has to be remapped, so a slice kept beyond its transaction reads
			// reused pages instead of faulting
			bopts.InitialMmapSize = 64 << 20
		}
		db, err := bolt.Open(filepath.Join(e.Dir, "bolt.db"), 0600, bopts)
		if err != nil {
			return err
		}
		e.BoltDB = db
		e.Backend = s3bolt.New(db, s3bolt.WithTimeSource(e.Clock))
	case "multifs":
		b, err := s3afero.MultiBucket(afero.NewBasePathFs(e.baseFs, "/data"))
		if err != nil {
			return err
		}
		e.Backend = b
	case "singlefs":
		if len(cfg.Buckets) == 0 {
			return fmt.Errorf("singlefs needs a bucket name")
		}
		for _, d := range []string{"/bucket", "/meta"} {
			if err := e.baseFs.MkdirAll(d, 0700); err != nil {
				return err
			}
		}
		b, err := s3afero.SingleBucket(cfg.Buckets[0], afero.NewBasePathFs(e.baseFs, "/bucket"), afero.NewBasePathFs(e.baseFs, "/meta"))
		if err != nil {
			return err
		}
		e.Backend = b
	default:
		return fmt.Errorf("unknown backend %q", cfg.Backend)
	}
	opts := []gofakes3.Option{
		gofakes3.WithTimeSource(e.Clock),
		gofakes3.WithIntegrityCheck(!cfg.NoIntegrity),
		gofakes3.WithAutoBucket(cfg.AutoBucket),
		gofakes3.WithHostBucket(cfg.HostBucket),
	}
	if cfg.HostBase {
		// several bases, "tested in order": a global endpoint listed before a
		// regional one below it
		opts = append(opts, gofakes3.WithHostBucketBase("sim", "eu.sim", "other.example"))
	}
	if os.Getenv("SIMCHECK_DEBUG") != "" {
		opts = append(opts, gofakes3.WithGlobalLog())
	}
	if cfg.MetaLimit != 0 {
		opts = append(opts, gofakes3.WithMetadataSizeLimit(cfg.MetaLimit))
	}
	if cfg.PageErr {
		opts = append(opts, gofakes3.WithUnimplementedPageError())
	}
	if cfg.NoVersioning {
		opts = append(opts, gofakes3.WithoutVersioning())
	}
	e.Faker = gofakes3.New(e.Backend, opts...)
	e.Handler = e.Faker.Server()
	return nil
}

// Close shuts the incarnation down cleanly.
func (e *Env) Close() error {
	if e.BoltDB != nil {
		db := e.BoltDB
		e.BoltDB = nil
		// bbolt's Close waits for every open transaction; one that the code
		// under test never closed would hang the harness here
		done := make(chan error, 1)
		go func() { done <- db.Close() }()
		select {
		case err := <-done:
			return err
		case <-time.After(simrt.BoltTxLimit):
			return ErrCloseHung
		}
	}
	return nil
}

// ErrCloseHung: the bolt database could not be closed because a transaction
// was left open.
var ErrCloseHung = fmt.Errorf("closing the bolt database hangs: a transaction was left open")

// Restart closes the incarnation and opens a new one on the same storage.
func (e *Env) Restart() error {
	if err := e.Close(); err != nil {
		return err
	}
	if e.Cfg.Backend == "mem" {
		return fmt.Errorf("memory backend does not persist")
	}
	return e.open()
}

// Persistent reports whether the backend keeps state across restarts.
func (c Config) Persistent() bool { return c.Backend != "mem" }

// Paginates reports whether the backend implements listing pagination.
func (c Config) Paginates() bool { return c.Backend == "mem" }

// IsFS reports whether the backend stores objects as files.
func (c Config) IsFS() bool { return c.Backend == "multifs" || c.Backend == "singlefs" }

// clockFs is the clock seam for the real file systems (MemMapFs, a real
// directory): they stamp files with the wall clock, which no simulator owns,
// so every file written through this wrapper gets its mtime from the simulated
// clock when it is closed (what libfaketime would do for a real process).
// Everything else is the wrapped file system's own behaviour.
type clockFs struct {
	afero.Fs
	now func() time.Time
}

type clockFile struct {
	afero.File
	fs      *clockFs
	name    string
	written bool
}

func (c *clockFs) wrap(f afero.File, err error, name string, write bool) (afero.File, error) {
	if err != nil || f == nil {
		return f, err
	}
	return &clockFile{File: f, fs: c, name: name, written: write}, nil
}

func (c *clockFs) Create(name string) (afero.File, error) {
	f, err := c.Fs.Create(name)
	return c.wrap(f, err, name, true)
}

func (c *clockFs) OpenFile(name string, flag int, perm os.FileMode) (afero.File, error) {
	f, err := c.Fs.OpenFile(name, flag, perm)
	return c.wrap(f, err, name, flag&(os.O_WRONLY|os.O_RDWR|os.O_CREATE|os.O_TRUNC) != 0)
}

func (c *clockFs) Open(name string) (afero.File, error) {
	f, err := c.Fs.Open(name)
	return c.wrap(f, err, name, false)
}

func (f *clockFile) Close() error {
	err := f.File.Close()
	if f.written && err == nil {
		t := f.fs.now()
		f.fs.Fs.Chtimes(f.name, t, t)
	}
	return err
}
