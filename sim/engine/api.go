package engine

import (
	"bytes"
	"errors"
	"fmt"
	"io"
	"math/rand"
	"regexp"

	"simrt"
	"verif/sim/model"

	"github.com/johannesboyne/gofakes3"
)

// fragReader hands body bytes to a Backend method the way a transport would:
// fragmented, optionally failing after k bytes or ending early.
type fragReader struct {
	data    []byte
	pos     int
	frag    string
	rng     *rand.Rand
	failAt  int // >=0: return an error once this many bytes were delivered
	eofData bool
}

var errReaderFailed = errors.New("simulated body reader failure")

func (f *fragReader) Read(p []byte) (int, error) {
	simrt.Point("api.read")
	if f.failAt >= 0 && f.pos >= f.failAt {
		return 0, errReaderFailed
	}
	if f.pos >= len(f.data) {
		return 0, io.EOF
	}
	remain := len(f.data) - f.pos
	if f.failAt >= 0 && f.failAt-f.pos < remain {
		remain = f.failAt - f.pos
	}
	n := remain
	switch f.frag {
	case "bytes":
		n = 1
	case "halves":
		n = (remain + 1) / 2
	case "random":
		n = 1 + f.rng.Intn(remain)
	case "seven":
		n = 7
	}
	if n > remain {
		n = remain
	}
	if n > len(p) {
		n = len(p)
	}
	copy(p, f.data[f.pos:f.pos+n])
	f.pos += n
	if f.eofData && f.pos >= len(f.data) {
		return n, io.EOF
	}
	return n, nil
}

func errCode(err error) string {
	if err == nil {
		return ""
	}
	if e, ok := err.(interface{ ErrorCode() gofakes3.ErrorCode }); ok {
		return string(e.ErrorCode())
	}
	// not an S3 error: the text, without file names (a change may name its
	// scratch files after a process-wide counter, which is not part of a run)
	return "error:" + pathToken.ReplaceAllString(err.Error(), "<path>")
}

var pathToken = regexp.MustCompile(`\S*/\S*`)

// execAPI drives the Go Backend interface directly.
func (r *Run) execAPI(op *Op) {
	simrt.EnterServer()
	defer simrt.LeaveServer()
	be := r.Env.Backend
	b := r.M.Buckets[op.B]
	switch op.K {
	case "put":
		ent := r.entityFor(op)
		meta := map[string]string{}
		for k, v := range op.Meta {
			meta[k] = v
		}
		rd := &fragReader{data: ent.Body, frag: r.frag(op), rng: rand.New(rand.NewSource(r.Plan.Seed + int64(r.curOp))), failAt: -1}
		size := int64(len(ent.Body) + op.LenLie)
		for _, f := range op.Faults {
			switch f.Kind {
			case "abort":
				rd.failAt = f.At
				r.stats.Faults["api-reader-fail"]++
			case "eofdata":
				rd.eofData = true
				r.stats.Faults["data-with-eof"]++
			}
		}
		var before *keySnap
		lie := rd.failAt >= 0 || op.LenLie != 0
		if lie && b != nil {
			before = r.observeKey(op.B, op.Key)
		}
		_, err := be.PutObject(op.B, op.Key, meta, rd, size)
		r.logf("  -> %s", errCode(err))
		if r.faultedOut(nil, op.B, op.Key) {
			return
		}
		if b == nil {
			if errCode(err) != "NoSuchBucket" {
				r.fail("read.absent", "Backend.PutObject into an absent bucket does not return NoSuchBucket "+r.bctx(), "NoSuchBucket", errCode(err))
			}
			r.ok("read.absent")
			return
		}
		if lie {
			mustReject := rd.failAt >= 0 && rd.failAt < len(ent.Body) || op.LenLie > 0
			if err == nil {
				if mustReject {
					r.fail("accept.iff", "Backend.PutObject accepts a body shorter than the declared size "+r.bctx(), "error", "nil")
				}
				// longer reader than declared: not judged; follow the store
				g, gerr := be.GetObject(op.B, op.Key, nil)
				if gerr == nil {
					bts, _ := io.ReadAll(g.Contents)
					g.Contents.Close()
					r.M.Put(b, op.Key, model.NewEntity(bts, nil, "observed"))
				}
				return
			}
			if r.me().faulted {
				k := b.Keys[op.Key]
				if k == nil {
					k = &model.Key{}
					b.Keys[op.Key] = k
				}
				k.Indet = true
				return
			}
			after := r.observeKey(op.B, op.Key)
			if *after != *before {
				r.fail("reject.unchanged", fmt.Sprintf("a rejected upload (Backend.PutObject, body reader failed or ended early) changed the stored object: %s %s", snapSig(diffKey(before, after)), r.bctx()), before.String(), after.String())
			}
			r.ok("reject.unchanged")
			return
		}
		if sure, maybe := r.fsKeyConflict(op.B, op.Key); (sure || maybe) && !r.me().faulted {
			if err != nil {
				r.probe("upload refused: key in a path relation with a stored key (fs)")
				return
			}
			if sure {
				r.fail("frame.others", "a file-system backend accepts a key that is a path prefix of a stored key or lies below one (Backend.PutObject) "+r.bctx(), "error", "nil")
			}
		}
		if err != nil {
			if r.me().faulted {
				k := b.Keys[op.Key]
				if k == nil {
					k = &model.Key{}
					b.Keys[op.Key] = k
				}
				k.Indet = true
				return
			}
			r.fail("read.content", "an honest upload is refused (Backend.PutObject) "+r.bctx(), "nil", errCode(err))
		}
		r.M.Put(b, op.Key, ent)
		r.stats.Mutations++
	case "get", "head":
		var obj *gofakes3.Object
		var err error
		if op.K == "get" {
			obj, err = be.GetObject(op.B, op.Key, nil)
		} else {
			obj, err = be.HeadObject(op.B, op.Key)
		}
		r.logf("  -> %s", errCode(err))
		if b == nil {
			if errCode(err) != "NoSuchBucket" {
				r.fail("read.absent", "Backend."+op.K+" on an absent bucket does not return NoSuchBucket "+r.bctx(), "NoSuchBucket", errCode(err))
			}
			r.ok("read.absent")
			return
		}
		k := b.Keys[op.Key]
		if k != nil && k.Indet {
			if obj != nil {
				obj.Contents.Close()
			}
			return
		}
		e := k.Live()
		if e == nil {
			if errCode(err) != "NoSuchKey" {
				r.fail("read.absent", "Backend read of a deleted or never-written key does not return NoSuchKey "+r.bctx(), "NoSuchKey", errCode(err))
			}
			r.ok("read.absent")
			return
		}
		if err != nil || obj == nil {
			r.fail("read.content", "Backend read of a stored object fails "+r.bctx(), "object", errCode(err))
		}
		bts, rerr := io.ReadAll(obj.Contents)
		obj.Contents.Close()
		if rerr != nil {
			r.fail("read.content", "reading Object.Contents fails "+r.bctx(), "bytes", rerr.Error())
		}
		if op.K == "head" {
			if len(bts) != 0 {
				r.fail("read.content", "Backend.HeadObject returns contents "+r.bctx(), "empty", fmt.Sprint(len(bts)))
			}
		} else if !bytes.Equal(bts, e.Body) {
			r.fail("read.content", "GET (Backend.GetObject) body differs from the bytes of the upload it should serve "+r.bctx(), fmt.Sprintf("%d bytes md5=%s", len(e.Body), e.MD5), describeBody(bts))
		}
		if obj.Size != int64(len(e.Body)) {
			r.fail("read.content", "Backend Object.Size differs from the object's size "+r.bctx(), fmt.Sprint(len(e.Body)), fmt.Sprint(obj.Size))
		}
		if fmt.Sprintf("%x", obj.Hash) != e.MD5 {
			r.fail("read.content", "Backend Object.Hash is not the MD5 of the body "+r.bctx(), e.MD5, fmt.Sprintf("%x", obj.Hash))
		}
		r.ok("read.content")
		for _, kv := range sortedMeta(e.Meta) {
			if obj.Metadata[kv[0]] != kv[1] {
				r.fail("read.metadata", "Backend read does not return a metadata header as sent with the upload "+r.bctx(), kv[0]+": "+kv[1], obj.Metadata[kv[0]])
			}
		}
		if e.Meta != nil {
			r.ok("read.metadata")
		}
	case "del":
		_, err := be.DeleteObject(op.B, op.Key)
		r.logf("  -> %s", errCode(err))
		if r.faultedOut(nil, op.B, op.Key) {
			return
		}
		if b == nil {
			if errCode(err) != "NoSuchBucket" {
				r.fail("read.absent", "Backend.DeleteObject on an absent bucket does not return NoSuchBucket "+r.bctx(), "NoSuchBucket", errCode(err))
			}
			return
		}
		if err != nil {
			if r.me().faulted {
				k := b.Keys[op.Key]
				if k == nil {
					k = &model.Key{}
					b.Keys[op.Key] = k
				}
				k.Indet = true
				return
			}
			r.fail("bucket.semantics", "Backend.DeleteObject (present or not) fails "+r.bctx(), "nil", errCode(err))
		}
		r.M.Delete(b, op.Key)
		r.stats.Mutations++
		r.ok("bucket.semantics")
	default:
		panic("api op " + op.K)
	}
}
