package engine

import (
	"bytes"
	"crypto/md5"
	"encoding/base64"
	"encoding/xml"
	"fmt"
	"net/url"
	"sort"
	"strconv"
	"strings"

	"verif/sim/simnet"
)

type simnetRequest = simnet.Request

func xmlEscape(b *bytes.Buffer, s string) { xml.EscapeText(b, []byte(s)) }

// Resp is a parsed response.
type Resp struct {
	*simnet.Response
	Code string // S3 error code when the body is an <Error> document
	Msg  string
}

type xmlError struct {
	XMLName xml.Name `xml:"Error"`
	Code    string   `xml:"Code"`
	Message string   `xml:"Message"`
}

func (r *Resp) OK() bool { return r.Status >= 200 && r.Status < 300 }

func (r *Resp) String() string {
	if r == nil {
		return "<nil>"
	}
	if r.Panic != nil {
		return fmt.Sprintf("PANIC %v", r.Panic)
	}
	s := fmt.Sprintf("%d", r.Status)
	if r.Code != "" {
		s += " " + r.Code
	}
	return s
}

// send issues a request as the calling client and applies the attached
// transport faults of the current op.
func (r *Run) send(req *simnet.Request, faults []Fault, defFrag string) *Resp {
	req.AbortAfter = -1
	if req.Frag == "" {
		req.Frag = defFrag
	}
	for _, f := range faults {
		switch f.Kind {
		case "abort":
			req.AbortAfter = f.At
			r.stats.Faults["body-abort-reset"]++
		case "hang":
			req.AbortAfter, req.Hang = f.At, true
			r.stats.Faults["client-stops-sending"]++
		case "aborteof":
			req.AbortAfter, req.AbortEOF = f.At, true
			r.stats.Faults["body-abort-eof"]++
		case "stall":
			req.Stall = f.N
			r.stats.Faults["net-stall"]++
		case "frag":
			req.Frag = f.S
		case "eofdata":
			req.EOFWithData = true
			r.stats.Faults["data-with-eof"]++
		case "respfail":
			req.RespFailAt = f.At
			r.stats.Faults["resp-write-fail"]++
		case "slowreader":
			req.SlowReader = f.N
			r.stats.Faults["slow-reader"]++
		}
	}
	if req.Frag != "" && req.Frag != "whole" {
		r.stats.Faults["frag-"+req.Frag]++
	}
	if r.Plan.Config.HostBase && req.Host == "" {
		// virtual-host style for about half of the bucket-addressed requests:
		// the first path segment travels in the Host header.  The answer must
		// be the one the path-style request gets.
		r.reqCount++
		if (r.Plan.Seed+r.reqCount)%2 == 0 && !r.inSetup {
			if m := hostSplit.FindStringSubmatch(req.Target); m != nil {
				base := ".sim"
				if (r.Plan.Seed+r.reqCount)%4 == 0 {
					base = ".eu.sim" // through the second, nested base
					r.stats.Faults["virtual-host-style-nested-base"]++
				}
				req.Host, req.Target = m[1]+base, "/"+m[2]
				r.stats.Faults["virtual-host-style"]++
			}
		}
	}
	if r.Plan.Config.AmzDate {
		// a client whose clock agrees with the server's, whatever that clock does
		has := false
		for _, h := range req.Headers {
			if strings.EqualFold(h[0], "x-amz-date") {
				has = true
			}
		}
		if !has {
			req.Headers = append(req.Headers, [2]string{"X-Amz-Date", r.Env.Clock.Now().UTC().Format("20060102T150405Z")})
		}
	}
	if r.Plan.Config.LateEOF {
		req.LateEOF = true
		if len(req.Body) > 0 {
			r.stats.Faults["late-eof"]++
		}
	}
	raw := simnet.Do(r.Env.Handler, req)
	out := &Resp{Response: raw}
	if raw.Panic == nil && raw.Status >= 300 && len(raw.Body) > 0 {
		var e xmlError
		if xml.Unmarshal(raw.Body, &e) == nil {
			out.Code, out.Msg = e.Code, e.Message
		}
	}
	if raw.ShortReads > 0 {
		r.stats.Probes["transport short read seen by server"]++
	}
	return out
}

func target(bucket, key string, q url.Values) string {
	t := "/" + simnet.EscapePath(bucket)
	if key != "" {
		t += "/" + simnet.EscapePath(key)
	}
	if len(q) > 0 {
		t += "?" + encodeQuery(q)
	}
	return t
}

// encodeQuery is url.Values.Encode with bare keys for empty values of the
// S3 sub-resources (?uploads, ?versioning, ...), in sorted key order.
func encodeQuery(q url.Values) string {
	keys := make([]string, 0, len(q))
	for k := range q {
		keys = append(keys, k)
	}
	sort.Strings(keys)
	var b strings.Builder
	for _, k := range keys {
		for _, v := range q[k] {
			if b.Len() > 0 {
				b.WriteByte('&')
			}
			b.WriteString(url.QueryEscape(k))
			if v != "" || !bareKey[k] {
				b.WriteByte('=')
				b.WriteString(url.QueryEscape(v))
			}
		}
	}
	return b.String()
}

var bareKey = map[string]bool{"uploads": true, "versioning": true, "versions": true, "delete": true, "location": true}

func md5b64(b []byte) string {
	s := md5.Sum(b)
	return base64.StdEncoding.EncodeToString(s[:])
}

func sortedMeta(m map[string]string) [][2]string {
	keys := make([]string, 0, len(m))
	for k := range m {
		keys = append(keys, k)
	}
	sort.Strings(keys)
	out := make([][2]string, 0, len(keys))
	for _, k := range keys {
		out = append(out, [2]string{k, m[k]})
	}
	return out
}

// putRequest builds an object/part upload with the op's lies applied.
// received is what a server can legitimately take as the body (nil when the
// request cannot be accepted at all).
func (r *Run) putRequest(op *Op, tgt string, body []byte) *simnet.Request {
	req := &simnet.Request{Method: "PUT", Target: tgt, FragSeed: r.Plan.Seed*7919 + int64(r.curClient*1000+r.curOp)}
	req.Headers = append(req.Headers, sortedMeta(op.Meta)...)
	wireBody := body
	if len(op.Chunks) > 0 || op.ChLie != "" {
		wireBody = awsChunked(body, op.Chunks, op.ChLie)
		dec := len(body)
		switch op.ChLie {
		case "declen+":
			dec++
		case "declen-":
			dec--
		}
		req.Headers = append(req.Headers,
			[2]string{"X-Amz-Content-Sha256", "STREAMING-AWS4-HMAC-SHA256-PAYLOAD"},
			[2]string{"X-Amz-Decoded-Content-Length", strconv.Itoa(dec)},
			[2]string{"Content-Encoding", "aws-chunked"})
	}
	switch {
	case op.TE:
		req.Headers = append(req.Headers, [2]string{"Transfer-Encoding", "chunked"})
		var b bytes.Buffer
		if len(wireBody) > 0 {
			fmt.Fprintf(&b, "%x\r\n", len(wireBody))
			b.Write(wireBody)
			b.WriteString("\r\n")
		}
		b.WriteString("0\r\n\r\n")
		wireBody = b.Bytes()
	case op.NoLen:
	default:
		req.Headers = append(req.Headers, [2]string{"Content-Length", strconv.Itoa(len(wireBody) + op.LenLie)})
	}
	switch op.MD5 {
	case "ok":
		req.Headers = append(req.Headers, [2]string{"Content-MD5", md5b64(body)})
	case "wrong":
		other := append([]byte("x"), body...)
		req.Headers = append(req.Headers, [2]string{"Content-MD5", md5b64(other)})
	case "wrong-zero": // well-formed digests that a comparison by value, by length or by prefix may take for "none"
		req.Headers = append(req.Headers, [2]string{"Content-MD5", base64.StdEncoding.EncodeToString(make([]byte, 16))})
	case "wrong-zero-padbits": // the same sixteen bytes with non-canonical padding bits
		req.Headers = append(req.Headers, [2]string{"Content-MD5", "AAAAAAAAAAAAAAAAAAAAAB=="})
	case "wrong-ones":
		req.Headers = append(req.Headers, [2]string{"Content-MD5", base64.StdEncoding.EncodeToString(bytes.Repeat([]byte{0xff}, 16))})
	case "wrong-ofempty": // the digest of no bytes at all, sent with a body
		req.Headers = append(req.Headers, [2]string{"Content-MD5", md5b64(nil)})
	case "wrong-lastbyte": // right but for the last byte
		sum := md5.Sum(body)
		sum[15] ^= 1
		req.Headers = append(req.Headers, [2]string{"Content-MD5", base64.StdEncoding.EncodeToString(sum[:])})
	case "malformed":
		req.Headers = append(req.Headers, [2]string{"Content-MD5", "!!!not-base64!!!"})
	case "shortlen":
		req.Headers = append(req.Headers, [2]string{"Content-MD5", base64.StdEncoding.EncodeToString([]byte("tooshort"))})
	case "empty":
		req.Headers = append(req.Headers, [2]string{"Content-MD5", ""})
	}
	req.Body = wireBody
	if len(op.Splits) > 0 {
		_, bs := (&simnet.Request{Method: req.Method, Target: req.Target, Headers: req.Headers}).Wire()
		for _, s := range op.Splits {
			req.Splits = append(req.Splits, bs+s)
		}
	}
	return req
}

const chunkSig = "0123456789abcdef0123456789abcdef0123456789abcdef0123456789abcdef"

// awsChunked frames payload in STREAMING-AWS4-HMAC-SHA256-PAYLOAD chunks of
// the given sizes (the last size repeats; nil means one chunk), followed by
// the final zero-length chunk.
func awsChunked(payload []byte, sizes []int, lie string) []byte {
	var b bytes.Buffer
	rest := payload
	i := 0
	first := true
	for len(rest) > 0 {
		n := len(rest)
		if len(sizes) > 0 {
			s := sizes[len(sizes)-1]
			if i < len(sizes) {
				s = sizes[i]
			}
			if s > 0 && s < n {
				n = s
			}
		}
		i++
		switch {
		case lie == "badhex" && first:
			fmt.Fprintf(&b, "zz;chunk-signature=%s\r\n", chunkSig)
		case lie == "nosig" && first:
			fmt.Fprintf(&b, "%x\r\n", n)
		case strings.HasPrefix(lie, "sig") && (first || i == 2):
			// a chunk-signature that is not 64 characters long (first and, to
			// land after payload bytes too, second chunk)
			m, _ := strconv.Atoi(lie[3:])
			fmt.Fprintf(&b, "%x;chunk-signature=%s\r\n", n, strings.Repeat("ab", m)[:m])
		case strings.HasPrefix(lie, "hugehex") && first:
			// a chunk size of 2^64+n (wraps to n in a 64-bit accumulator); with
			// "-empty" a size of 2^64 exactly, followed by nothing of that chunk
			if lie == "hugehex-empty" {
				fmt.Fprintf(&b, "10000000000000000;chunk-signature=%s\r\n\r\n", chunkSig)
				first = false
				i--
				continue
			} else {
				fmt.Fprintf(&b, "1%016x;chunk-signature=%s\r\n", n, chunkSig)
			}
		case lie == "upperhex":
			// not a lie: hex digits are case-insensitive, and some clients write them in upper case
			fmt.Fprintf(&b, "%X;chunk-signature=%s\r\n", n, chunkSig)
		default:
			fmt.Fprintf(&b, "%x;chunk-signature=%s\r\n", n, chunkSig)
		}
		b.Write(rest[:n])
		switch {
		case lie == "badcrlf" && first:
			b.WriteString("XY") // two bytes that are not CRLF after the chunk's data
		case lie == "lfonly" && first:
			b.WriteString("\n\n")
		default:
			b.WriteString("\r\n")
		}
		first = false
		rest = rest[n:]
	}
	if lie != "nofinal" {
		fmt.Fprintf(&b, "0;chunk-signature=%s\r\n\r\n", chunkSig)
	}
	switch lie {
	case "afterfinal": // a second, well-formed stream behind the final chunk
		fmt.Fprintf(&b, "5;chunk-signature=%s\r\nEXTRA\r\n0;chunk-signature=%s\r\n\r\n", chunkSig, chunkSig)
	case "afterfinal-garbage":
		b.WriteString("garbage behind the final chunk")
	}
	out := b.Bytes()
	if lie == "trunc" && len(out) > 3 {
		out = out[:len(out)*2/3]
	}
	if lie == "trunc1" && len(out) > 3 {
		out = out[:len(out)/3]
	}
	return out
}

// ---- XML documents as a client sees them (independent of gofakes3's types)

type xContent struct {
	Key  string `xml:"Key"`
	ETag string `xml:"ETag"`
	Size int64  `xml:"Size"`
}

type xPrefix struct {
	Prefix string `xml:"Prefix"`
}

type xListResult struct {
	XMLName               xml.Name   `xml:"ListBucketResult"`
	Name                  string     `xml:"Name"`
	IsTruncated           bool       `xml:"IsTruncated"`
	Contents              []xContent `xml:"Contents"`
	CommonPrefixes        []xPrefix  `xml:"CommonPrefixes"`
	NextMarker            string     `xml:"NextMarker"`
	NextContinuationToken string     `xml:"NextContinuationToken"`
	KeyCount              int64      `xml:"KeyCount"`
	MaxKeys               int64      `xml:"MaxKeys"`
}

type xBuckets struct {
	XMLName xml.Name `xml:"ListAllMyBucketsResult"`
	Buckets []struct {
		Name string `xml:"Name"`
	} `xml:"Buckets>Bucket"`
}

type xCopyResult struct {
	XMLName xml.Name `xml:"CopyObjectResult"`
	ETag    string   `xml:"ETag"`
}

type xDeleteResult struct {
	XMLName xml.Name `xml:"DeleteResult"`
	Deleted []struct {
		Key       string `xml:"Key"`
		VersionID string `xml:"VersionId"`
	} `xml:"Deleted"`
	Errors []struct {
		Key  string `xml:"Key"`
		Code string `xml:"Code"`
	} `xml:"Error"`
}

type xInitResult struct {
	XMLName  xml.Name `xml:"InitiateMultipartUploadResult"`
	Bucket   string   `xml:"Bucket"`
	Key      string   `xml:"Key"`
	UploadID string   `xml:"UploadId"`
}

type xCompleteResult struct {
	XMLName xml.Name `xml:"CompleteMultipartUploadResult"`
	Bucket  string   `xml:"Bucket"`
	Key     string   `xml:"Key"`
	ETag    string   `xml:"ETag"`
}

type xPart struct {
	PartNumber int    `xml:"PartNumber"`
	ETag       string `xml:"ETag"`
	Size       int64  `xml:"Size"`
}

type xPartsResult struct {
	XMLName              xml.Name `xml:"ListPartsResult"`
	IsTruncated          bool     `xml:"IsTruncated"`
	NextPartNumberMarker int      `xml:"NextPartNumberMarker"`
	Parts                []xPart  `xml:"Part"`
}

type xUploadsResult struct {
	XMLName            xml.Name  `xml:"ListMultipartUploadsResult"`
	IsTruncated        bool      `xml:"IsTruncated"`
	NextKeyMarker      string    `xml:"NextKeyMarker"`
	NextUploadIDMarker string    `xml:"NextUploadIdMarker"`
	CommonPrefixes     []xPrefix `xml:"CommonPrefixes"`
	Uploads            []struct {
		Key      string `xml:"Key"`
		UploadID string `xml:"UploadId"`
	} `xml:"Upload"`
}

type xVersionEntry struct {
	Marker    bool
	Key       string
	VersionID string
	IsLatest  bool
	Size      int64
	ETag      string
}

type xVersionsResult struct {
	IsTruncated         bool
	NextKeyMarker       string
	NextVersionIDMarker string
	CommonPrefixes      []string
	Entries             []xVersionEntry
}

// parseVersions decodes a ListBucketVersionsResult preserving the document
// order of Version and DeleteMarker elements.
func parseVersions(body []byte) (*xVersionsResult, error) {
	d := xml.NewDecoder(bytes.NewReader(body))
	out := &xVersionsResult{}
	root := false
	for {
		tok, err := d.Token()
		if err != nil {
			if root {
				return out, nil
			}
			return nil, err
		}
		se, ok := tok.(xml.StartElement)
		if !ok {
			continue
		}
		if !root {
			if se.Name.Local != "ListBucketVersionsResult" && se.Name.Local != "ListVersionsResult" {
				return nil, fmt.Errorf("unexpected root %q", se.Name.Local)
			}
			root = true
			continue
		}
		switch se.Name.Local {
		case "Version", "DeleteMarker":
			var v struct {
				Key       string `xml:"Key"`
				VersionID string `xml:"VersionId"`
				IsLatest  bool   `xml:"IsLatest"`
				Size      int64  `xml:"Size"`
				ETag      string `xml:"ETag"`
			}
			if err := d.DecodeElement(&v, &se); err != nil {
				return nil, err
			}
			out.Entries = append(out.Entries, xVersionEntry{Marker: se.Name.Local == "DeleteMarker", Key: v.Key, VersionID: v.VersionID, IsLatest: v.IsLatest, Size: v.Size, ETag: v.ETag})
		case "CommonPrefixes":
			var p xPrefix
			if err := d.DecodeElement(&p, &se); err != nil {
				return nil, err
			}
			out.CommonPrefixes = append(out.CommonPrefixes, p.Prefix)
		case "IsTruncated":
			var b bool
			if err := d.DecodeElement(&b, &se); err != nil {
				return nil, err
			}
			out.IsTruncated = b
		case "NextKeyMarker":
			_ = d.DecodeElement(&out.NextKeyMarker, &se)
		case "NextVersionIdMarker":
			_ = d.DecodeElement(&out.NextVersionIDMarker, &se)
		default:
			_ = d.Skip()
		}
	}
}
