package engine

import (
	"fmt"
	"net/url"
	"sort"
	"strconv"
	"strings"

	"verif/sim/model"
)

func versionsQuery(op *Op, keyMarker, verMarker string) url.Values {
	q := url.Values{"versions": {""}}
	if op.Prefix != "" {
		q.Set("prefix", op.Prefix)
	}
	if op.Delim != "" {
		q.Set("delimiter", op.Delim)
	}
	if op.Max > 0 {
		q.Set("max-keys", strconv.Itoa(op.Max))
	}
	if keyMarker != "" {
		q.Set("key-marker", keyMarker)
		if verMarker != "" {
			q.Set("version-id-marker", verMarker)
		}
	}
	return q
}

func (r *Run) doListVersions(op *Op, q url.Values) (*xVersionsResult, *Resp) {
	resp := r.simple("GET", target(op.B, "", q), op)
	r.noPanic(resp, "list object versions")
	if resp.Status != 200 {
		return nil, resp
	}
	x, err := parseVersions(resp.Body)
	if err != nil {
		r.fail("versions.list", "ListObjectVersions answer is not a ListVersionsResult document", "ListVersionsResult", trunc(string(resp.Body), 200))
	}
	return x, resp
}

type wantVer struct {
	key string
	v   *model.Version
	cur bool
}

// expectedVersions lists the model entries a version listing must show.
func expectedVersions(b *model.Bucket, prefix, delim string) (want []wantVer, prefixes []string) {
	var keys []string
	for k, mk := range b.Keys {
		if len(mk.Vers) > 0 {
			keys = append(keys, k)
		}
	}
	ck, prefixes := model.Group(keys, prefix, delim)
	for _, k := range ck {
		mk := b.Keys[k]
		for _, v := range mk.Vers {
			want = append(want, wantVer{k, v, v == mk.Current()})
		}
	}
	return
}

// checkVersionEntries compares listed entries (possibly the concatenation of
// several pages) with the model and learns ids the model does not know yet.
func (r *Run) checkVersionEntries(cl string, b *model.Bucket, got []xVersionEntry, gotPrefixes []string, prefix, delim string) {
	want, wantPrefixes := expectedVersions(b, prefix, delim)
	// grouping and order
	seen := map[string]bool{}
	closed := map[string]bool{}
	last := ""
	for i, e := range got {
		id := e.Key + "\x00" + e.VersionID
		if seen[id] && (b.Versioning != "" || e.VersionID != "null") {
			r.fail(cl, "a version or delete marker is listed twice", "each entry once", fmt.Sprintf("%q %s", e.Key, e.VersionID))
		}
		seen[id] = true
		if i > 0 && e.Key != last {
			closed[last] = true
			if e.Key < last {
				r.fail(cl, "version listing is not grouped by ascending key", "keys ascending", fmt.Sprintf("%q after %q", e.Key, last))
			}
			if closed[e.Key] {
				r.fail(cl, "entries of one key are not adjacent in the version listing", "grouped by key", e.Key)
			}
		}
		last = e.Key
	}
	// match entries
	byKey := map[string][]xVersionEntry{}
	for _, e := range got {
		byKey[e.Key] = append(byKey[e.Key], e)
	}
	wantByKey := map[string][]wantVer{}
	var wkeys []string
	for _, w := range want {
		if _, ok := wantByKey[w.key]; !ok {
			wkeys = append(wkeys, w.key)
		}
		wantByKey[w.key] = append(wantByKey[w.key], w)
	}
	for k := range byKey {
		if _, ok := wantByKey[k]; !ok {
			r.fail(cl, "version listing shows a key that has no stored version or marker matching the request", "absent", fmt.Sprintf("%q", k))
		}
	}
	sort.Strings(wkeys)
	for _, k := range wkeys {
		ws, gs := wantByKey[k], byKey[k]
		if len(gs) != len(ws) {
			r.fail(cl, fmt.Sprintf("a key's version listing has %s entries than versions and markers stored", moreOrFewer(len(gs), len(ws))),
				fmt.Sprintf("%q: %d entries %s", k, len(ws), descWant(ws)), fmt.Sprintf("%d entries %s", len(gs), descGot(gs)))
		}
		used := make([]bool, len(gs))
		// pass 1: by known id
		var rest []wantVer
		for _, w := range ws {
			if w.v.ID == "" {
				rest = append(rest, w)
				continue
			}
			found := -1
			for i, g := range gs {
				if !used[i] && g.VersionID == w.v.ID {
					found = i
					break
				}
			}
			if found < 0 {
				r.fail(cl, "a stored version is missing from the version listing", fmt.Sprintf("%q id %s", k, w.v.ID), descGot(gs))
			}
			used[found] = true
			r.checkVersionEntry(cl, b, gs[found], w)
		}
		// pass 2: entries whose id the model never learned (never-versioned,
		// suspended era, multi-delete markers).  The order of a key's entries
		// is the server's business: pair by kind and content, preferring the
		// pairing that agrees on IsLatest, and learn an id only when the
		// pairing is the only possible one.
		wclass := func(w wantVer) string {
			if w.v.Marker {
				return fmt.Sprintf("m|%v", w.cur)
			}
			return fmt.Sprintf("v|%s|%v", w.v.Ent.MD5, w.cur)
		}
		gclass := func(g xVersionEntry) string {
			if g.Marker {
				return fmt.Sprintf("m|%v", g.IsLatest)
			}
			return fmt.Sprintf("v|%s|%v", strings.Trim(g.ETag, `"`), g.IsLatest)
		}
		wcount, gcount := map[string]int{}, map[string]int{}
		for _, w := range rest {
			wcount[wclass(w)]++
		}
		for i, g := range gs {
			if !used[i] {
				gcount[gclass(g)]++
			}
		}
		for _, w := range rest {
			found := -1
			for pass := 0; pass < 2 && found < 0; pass++ {
				for i, g := range gs {
					if used[i] || g.Marker != w.v.Marker {
						continue
					}
					if !w.v.Marker && strings.Trim(g.ETag, `"`) != w.v.Ent.MD5 {
						continue
					}
					if pass == 0 && g.IsLatest != w.cur {
						continue
					}
					found = i
					break
				}
			}
			if found < 0 {
				r.fail(cl, "a stored version is missing from the version listing", fmt.Sprintf("%q %s", k, descWant([]wantVer{w})), descGot(gs))
			}
			used[found] = true
			r.checkVersionEntry(cl, b, gs[found], w)
			unique := wcount[wclass(w)] == 1 && gcount[gclass(gs[found])] == 1
			if unique && b.Versioning != "" && gs[found].VersionID != "null" && gs[found].VersionID != "" && !r.allIDs[gs[found].VersionID] {
				w.v.ID = gs[found].VersionID
				r.allIDs[w.v.ID] = true
				r.verIDs[b.Name+"/"+k] = append(r.verIDs[b.Name+"/"+k], w.v.ID)
			}
		}
		latest := 0
		for _, g := range gs {
			if g.IsLatest {
				latest++
			}
		}
		if latest != 1 {
			r.fail(cl, fmt.Sprintf("a key has %d entries flagged IsLatest", latest), "exactly one", fmt.Sprintf("%q %s", k, descGot(gs)))
		}
	}
	sort.Strings(gotPrefixes)
	if strings.Join(gotPrefixes, "\x00") != strings.Join(wantPrefixes, "\x00") {
		r.fail(cl, "CommonPrefixes of the version listing differ from the grouping of the stored keys", fmt.Sprint(wantPrefixes), fmt.Sprint(gotPrefixes))
	}
	r.ok(cl)
}

func moreOrFewer(got, want int) string {
	if got > want {
		return "more"
	}
	return "fewer"
}

func descWant(ws []wantVer) string {
	var b strings.Builder
	for _, w := range ws {
		switch {
		case w.v.Marker:
			fmt.Fprintf(&b, "[marker %s id=%.12s cur=%v]", w.v.Era, w.v.ID, w.cur)
		default:
			fmt.Fprintf(&b, "[ver %s id=%.12s md5=%.6s cur=%v]", w.v.Era, w.v.ID, w.v.Ent.MD5, w.cur)
		}
	}
	return b.String()
}

func descGot(gs []xVersionEntry) string {
	var b strings.Builder
	for _, g := range gs {
		if g.Marker {
			fmt.Fprintf(&b, "[marker id=%.12s latest=%v]", g.VersionID, g.IsLatest)
		} else {
			fmt.Fprintf(&b, "[ver id=%.12s etag=%.8s size=%d latest=%v]", g.VersionID, g.ETag, g.Size, g.IsLatest)
		}
	}
	return b.String()
}

func (r *Run) checkVersionEntry(cl string, b *model.Bucket, g xVersionEntry, w wantVer) {
	if g.Marker != w.v.Marker {
		r.fail(cl, "a delete marker is listed as a version or vice versa", fmt.Sprintf("marker=%v", w.v.Marker), fmt.Sprintf("marker=%v", g.Marker))
	}
	if !g.Marker {
		if strings.Trim(g.ETag, `"`) != w.v.Ent.MD5 {
			r.fail(cl, "a listed version's ETag differs from that version's content", w.v.Ent.MD5, g.ETag)
		}
		if g.Size != int64(len(w.v.Ent.Body)) {
			r.fail(cl, "a listed version's Size differs from that version's content", fmt.Sprint(len(w.v.Ent.Body)), fmt.Sprint(g.Size))
		}
	}
	if g.IsLatest != w.cur {
		r.fail(cl, "IsLatest does not flag the entry an unqualified read resolves to", fmt.Sprintf("IsLatest=%v for %s", w.cur, descWant([]wantVer{w})), fmt.Sprintf("IsLatest=%v", g.IsLatest))
	}
	if b.Versioning == "" && g.VersionID != "null" {
		r.fail(cl, "a never-versioned bucket does not report the version id 'null'", "null", g.VersionID)
	}
}

func (r *Run) versionsSupported(resp *Resp) bool {
	if r.Plan.Config.Backend == "mem" && !r.Plan.Config.NoVersioning {
		return true
	}
	if resp.Status != 501 {
		r.fail("versions.list", "ListObjectVersions on a backend without versioning does not answer NotImplemented "+r.bctx(), "501", resp.String())
	}
	return false
}

func (r *Run) opListVersions(op *Op) {
	km, vm := "", ""
	if op.HasMk {
		// the property's domain: marker pairs naming an existing version
		mb := r.M.Buckets[op.B]
		ids := r.verIDs[op.B+"/"+op.Marker]
		if mb == nil || op.Ver <= 0 || len(ids) == 0 {
			return
		}
		km, vm = op.Marker, r.resolveVer(op.B, op.Marker, op.Ver)
		if mb.Keys[km].Find(vm) == nil {
			return
		}
		r.probe("version listing from a client-chosen (key, version) marker")
	}
	x, resp := r.doListVersions(op, versionsQuery(op, km, vm))
	r.logf("  -> %s", resp.String())
	if !r.versionsSupported(resp) {
		return
	}
	b := r.bucket(op.B)
	if b == nil {
		r.expectNoBucket(resp, "ListObjectVersions")
		return
	}
	if x == nil {
		r.fail("versions.list", "ListObjectVersions fails", "200", resp.String()+" "+resp.Msg)
	}
	paged := op.Max > 0 || km != ""
	if !paged {
		// no max-keys means the protocol's page size
		w, pf := expectedVersions(b, op.Prefix, op.Delim)
		paged = len(w)+len(pf) >= protocolPage // a full page may report more to come (C13 asks that the rest be retrievable, not that the flag be exact)
	}
	if paged {
		r.checkVersionsPage(op, x, b, km, vm)
		return
	}
	var pfx []string
	pfx = append(pfx, x.CommonPrefixes...)
	r.checkVersionEntries("versions.list", b, x.Entries, pfx, op.Prefix, op.Delim)
	if x.IsTruncated {
		r.fail("versions.list", "an unpaginated version listing reports IsTruncated=true", "false", "true")
	}
}

// checkVersionsPage judges a single page with client-chosen markers: no more
// than max-keys entries, each a stored entry, no duplicates, keys ascending
// and not before the key marker, and truncated pages carry both markers.
func (r *Run) checkVersionsPage(op *Op, x *xVersionsResult, b *model.Bucket, km, vm string) {
	if len(x.Entries) > pageSize(op) {
		r.fail("versions.walk", "a version-listing page holds more entries than max-keys", fmt.Sprintf("<= %d", pageSize(op)), fmt.Sprint(len(x.Entries)))
	}
	want, _ := expectedVersions(b, op.Prefix, op.Delim)
	have := map[string]bool{}
	for _, w := range want {
		have[w.key] = true
	}
	seen := map[string]bool{}
	for i, e := range x.Entries {
		if !have[e.Key] {
			r.fail("versions.walk", "a version-listing page shows a key with no stored entries", "stored keys only", e.Key)
		}
		if km != "" && e.Key < km {
			r.fail("versions.walk", "a version-listing page returns a key before the key marker", ">= "+km, e.Key)
		}
		id := e.Key + "\x00" + e.VersionID
		if seen[id] && b.Versioning != "" {
			r.fail("versions.walk", "a version-listing page repeats an entry", "each once", id)
		}
		seen[id] = true
		if i > 0 && e.Key < x.Entries[i-1].Key {
			r.fail("versions.walk", "a version-listing page is not in ascending key order", "ascending", e.Key)
		}
	}
	if x.IsTruncated && (x.NextKeyMarker == "" || x.NextVersionIDMarker == "") {
		r.fail("versions.walk", "a truncated version listing carries no NextKeyMarker/NextVersionIdMarker", "both markers", fmt.Sprintf("key=%q version=%q", x.NextKeyMarker, x.NextVersionIDMarker))
	}
	// a marker pair naming an existing entry: no entry of a later key may be
	// skipped, and entries of the marker key come before those of later keys
	if km != "" && vm != "" && op.Delim == "" {
		later := map[string]int{}
		for _, w := range want {
			if w.key > km {
				later[w.key]++
			}
		}
		got := map[string]int{}
		lastKey := ""
		for _, e := range x.Entries {
			got[e.Key]++
			lastKey = e.Key
		}
		var lk []string
		for k := range later {
			lk = append(lk, k)
		}
		sort.Strings(lk)
		for _, k := range lk {
			if (k < lastKey || !x.IsTruncated) && got[k] != later[k] {
				r.fail("versions.walk", "a version listing resumed from a (key, version) marker skips or repeats entries of a later key", fmt.Sprintf("%q: %d entries", k, later[k]), fmt.Sprintf("%d entries", got[k]))
			}
		}
		if !x.IsTruncated && op.Max > 0 && len(x.Entries) < op.Max {
			// everything after the marker fitted: the marker key itself contributes at most its other entries
			if n := len(wantOf(want, km)); got[km] > n-1 && n > 0 && got[km] > n {
				r.fail("versions.walk", "a version listing resumed from a marker repeats entries of the marker key", fmt.Sprintf("<= %d", n), fmt.Sprint(got[km]))
			}
		}
	}
	r.ok("versions.walk")
}

func wantOf(want []wantVer, key string) []wantVer {
	var out []wantVer
	for _, w := range want {
		if w.key == key {
			out = append(out, w)
		}
	}
	return out
}

// opWalkVersions pages through the version listing with the markers the
// server returns and checks the concatenation.
func (r *Run) opWalkVersions(op *Op) {
	b := r.bucket(op.B)
	if b == nil {
		return
	}
	want, _ := expectedVersions(b, op.Prefix, op.Delim)
	total := len(want)
	var all []xVersionEntry
	var prefixes []string
	seenP := map[string]bool{}
	km, vm := "", ""
	pages := 0
	for {
		pages++
		if pages > total+3 {
			r.fail("versions.walk", "a paginated version walk does not terminate", fmt.Sprintf("<= %d pages", total+2), "more")
		}
		x, resp := r.doListVersions(op, versionsQuery(op, km, vm))
		if pages == 1 && !r.versionsSupported(resp) {
			return
		}
		if x == nil {
			r.fail("versions.walk", "a version-listing page request made with the markers the server returned fails", "200", resp.String()+" "+resp.Msg)
		}
		if len(x.Entries) > pageSize(op) {
			r.fail("versions.walk", "a version-listing page holds more entries than max-keys", fmt.Sprintf("<= %d", pageSize(op)), fmt.Sprint(len(x.Entries)))
		}
		all = append(all, x.Entries...)
		for _, p := range x.CommonPrefixes {
			if !seenP[p] {
				seenP[p] = true
				prefixes = append(prefixes, p)
			}
		}
		if !x.IsTruncated {
			break
		}
		if x.NextKeyMarker == "" || x.NextVersionIDMarker == "" {
			r.fail("versions.walk", "a truncated version listing carries no NextKeyMarker/NextVersionIdMarker", "both markers", fmt.Sprintf("key=%q version=%q", x.NextKeyMarker, x.NextVersionIDMarker))
		}
		if len(x.Entries) == 0 && len(x.CommonPrefixes) == 0 {
			r.fail("versions.walk", "a truncated version-listing page is empty", ">= 1 entry", "0")
		}
		km, vm = x.NextKeyMarker, x.NextVersionIDMarker
	}
	if pages > 1 {
		r.probe("multi-page version walk")
	}
	r.checkVersionEntries("versions.walk", b, all, prefixes, op.Prefix, op.Delim)
	r.logf("  -> %d pages %d entries", pages, len(all))
}
