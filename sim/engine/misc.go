package engine

import (
	"fmt"
)

// guard runs f and absorbs the stop-run panic raised by fail().
func (r *Run) guard(f func()) {
	defer func() {
		if p := recover(); p != nil {
			if _, ok := p.(stopRun); ok {
				return
			}
			panic(p)
		}
	}()
	f()
}

// setup creates the configured buckets (and enables versioning) before the
// simulation starts.
func (r *Run) setup() error {
	cfg := r.Plan.Config
	for _, b := range cfg.Buckets {
		if cfg.Backend != "singlefs" {
			if cfg.HostBucket {
				if err := r.Env.Backend.CreateBucket(b); err != nil {
					return fmt.Errorf("create bucket %s: %v", b, err)
				}
			} else if resp := r.quiet("PUT", target(b, "", nil)); !resp.OK() {
				// the server refuses to create a bucket with a valid name in an
				// empty store: that is its answer, not trouble of the harness
				r.setViol("bucket.semantics", "creating a bucket with a valid name in an empty store fails "+r.bctx(), "200", resp.String())
				return fmt.Errorf("create bucket %s: %s", b, resp.String())
			}
		}
		mb := r.M.CreateBucket(b)
		if cfg.Versioned && cfg.Backend == "mem" && !cfg.NoVersioning {
			op := &Op{K: "setver", B: b, Status: "Enabled"}
			var err error
			r.guard(func() { r.opSetVersioning(op) })
			if r.viol != nil || len(r.foreign) > 0 {
				return fmt.Errorf("enable versioning failed: %v", err)
			}
			_ = mb
		}
	}
	if cfg.Mode == "lin" {
		return r.setupLin()
	}
	return nil
}

// afterRun performs the end-of-run checks (outside the simulation: one
// goroutine, no faults).
func (r *Run) afterRun() {
	if r.stopped() {
		return
	}
	r.curClient, r.curOp = -1, -1
	switch r.Plan.Config.Mode {
	case "lin":
		r.guard(r.afterLin)
	case "raw":
		r.guard(r.afterRaw)
	default:
		r.guard(func() { r.fullCheck(r.finalClause()) })
	}
}

// finalClause is the clause the end-of-run full-store comparison is charged
// to: the role it plays for the property under check.
func (r *Run) finalClause() string {
	switch r.Prop {
	case "C15":
		return "restart.equal"
	case "C05", "C13":
		return "version.current"
	case "C12":
		return "chunk.decode"
	case "C06", "C14":
		return "mpu.complete"
	}
	return "read.content"
}
