package engine

import (
	cryptorand "crypto/rand"
	"crypto/sha256"
	"encoding/hex"
	"fmt"
	"math/rand"
	"os"
	"sort"
	"strconv"
	"strings"
	"syscall"
	"time"

	"simrt"
	"verif/sim/model"
	"verif/sim/simfs"
)

// clauseTags maps each oracle clause to the properties it belongs to.
var clauseTags = map[string][]string{
	"read.content":     {"C01", "C02"},
	"read.metadata":    {"C01"},
	"read.absent":      {"C02"},
	"bucket.semantics": {"C02"},
	"copy.semantics":   {"C02", "C01"},
	"fault.clean":      {"C02", "C01", "C10"},
	"list.exact":       {"C03"},
	"page.walk":        {"C04"},
	"page.fallback":    {"C04"},
	"version.id":       {"C05"},
	"version.read":     {"C05"},
	"version.delete":   {"C05"},
	"version.current":  {"C05"},
	"versions.list":    {"C13"},
	"versions.walk":    {"C13"},
	"mpu.complete":     {"C06"},
	"mpu.reject":       {"C06"},
	"mpu.abort":        {"C06"},
	"mpu.part":         {"C06"},
	"mpu.list":         {"C14"},
	"mpu.walk":         {"C14"},
	"lin.register":     {"C07"},
	"lin.integrity":    {"C07"},
	"lin.version":      {"C07"},
	"lin.mpu":          {"C07"},
	"deadlock":         {"C07", "C09"},
	"reject.unchanged": {"C08"},
	"accept.iff":       {"C08"},
	"wellformed":       {"C09"},
	"no-panic":         {"C09"},
	"progress":         {"C09"},
	"canary":           {"C09"},
	"frame.others":     {"C10"},
	"internal.hidden":  {"C10"},
	"chunk.decode":     {"C12"},
	"chunk.reject":     {"C12"},
	"restart.equal":    {"C15"},
	"crash.opens":      {"C15"},
	"crash.acked":      {"C15"},
	"crash.atomic":     {"C15"},
	"crash.coherent":   {"C15"},
}

// Violation is a failed clause.
type Violation struct {
	Clause    string
	Signature string
	Expected  string
	Observed  string
	Client    int
	OpIndex   int
	Foreign   bool // the clause is not tagged with the property under check
}

func (v *Violation) Info(prop string) *ViolationInfo {
	return &ViolationInfo{Property: prop, Clause: v.Clause, Signature: v.Signature, Expected: v.Expected, Observed: v.Observed, Client: v.Client, OpIndex: v.OpIndex}
}

type stopRun struct{}

// Stats is what one run contributes to the evidence.
type Stats struct {
	Ops         int
	Mutations   int
	Clauses     map[string]int
	Faults      map[string]int
	Probes      map[string]int
	Routes      map[string]int
	Steps       int64
	HandOffs    int64
	SimSeconds  float64
	SchedFP     uint64
	StateFP     string
	CrashPoints int
	Porcupine   map[string]int
}

func newStats() *Stats {
	return &Stats{Clauses: map[string]int{}, Faults: map[string]int{}, Probes: map[string]int{}, Routes: map[string]int{}, Porcupine: map[string]int{}}
}

// Result is the outcome of executing a plan.
type Result struct {
	Violation *Violation
	Foreign   []*Violation
	Stats     *Stats
	LogHash   string
	Log       []string
	Schedule  []simrt.Deviation
	Infra     string // non-empty: infrastructure problem (never a violation)
}

// Run executes one plan.
type Run struct {
	inSetup  bool  // setup requests travel path style
	reqCount int64 // requests sent so far (decides the addressing style under HostBase)
	Plan     *Plan
	Prop     string
	Env      *Env
	M        *model.Store
	Dir      string
	stats    *Stats

	viol    *Violation
	foreign []*Violation
	log     []string
	logHash [32]byte

	// run-time resolution of symbolic references
	uploads []*model.Upload
	verIDs  map[string][]string // bucket/key -> version ids in the order the server issued them
	allIDs  map[string]bool

	// per-client, per-op state
	curClient int
	curOp     int
	cs        []*clientState
	cs0       *clientState
	crashes   []*crashPoint

	hist       *history // C07
	rawUploads []string
	faultSeen  bool // a failing injected disk fault has hit some operation of this run
	left       int  // clients still running
}

// clientState is the per-client view of the operation in flight.
type clientState struct {
	opFaults []Fault
	fsCall   int
	faulted  bool // a failing disk fault hit the current op
	inflight *inflightOp
}

// Execute runs the plan in a scratch directory and returns the result.
// decodedMeta returns the plan with the byte escapes of its metadata values
// ("\\xe9": plans are JSON and cannot carry bytes that are not UTF-8)
// replaced by the bytes.  The caller's plan is left as it is.
func decodedMeta(p *Plan) *Plan {
	need := false
	for _, c := range p.Clients {
		for _, op := range c {
			for _, v := range op.Meta {
				if strings.Contains(v, `\x`) {
					need = true
				}
			}
		}
	}
	if !need && !p.Config.RawKeys {
		return p
	}
	q := *p
	q.Clients = make([][]Op, len(p.Clients))
	for ci, c := range p.Clients {
		q.Clients[ci] = append([]Op(nil), c...)
		for oi := range q.Clients[ci] {
			op := &q.Clients[ci][oi]
			if p.Config.RawKeys {
				op.Key, op.SrcKey = unescapeBytes(op.Key), unescapeBytes(op.SrcKey)
				if len(op.Keys) > 0 {
					ks := append([]KeyRef(nil), op.Keys...)
					for i := range ks {
						ks[i].Key = unescapeBytes(ks[i].Key)
					}
					op.Keys = ks
				}
			}
			if op.Meta == nil {
				continue
			}
			m := make(map[string]string, len(op.Meta))
			for k, v := range op.Meta {
				m[k] = unescapeBytes(v)
			}
			op.Meta = m
		}
	}
	return &q
}

func unescapeBytes(v string) string {
	var b []byte
	for i := 0; i < len(v); i++ {
		if v[i] == '\\' && i+3 < len(v) && v[i+1] == 'x' {
			if n, err := strconv.ParseUint(v[i+2:i+4], 16, 8); err == nil {
				b = append(b, byte(n))
				i += 3
				continue
			}
		}
		b = append(b, v[i])
	}
	return string(b)
}

func Execute(p *Plan, scratch string) (res *Result) {
	p = decodedMeta(p)
	res = &Result{Stats: newStats()}
	dir, err := os.MkdirTemp(scratch, "run")
	if err != nil {
		res.Infra = err.Error()
		return
	}
	defer os.RemoveAll(dir)
	env, err := NewEnv(p.Config, p.Seed, dir)
	if err != nil {
		res.Infra = "env: " + err.Error()
		return
	}
	defer env.Close() // idempotent; the normal path closes explicitly below and judges a hang
	r := &Run{Plan: p, Prop: p.Property, Env: env, M: model.New(), Dir: dir, stats: res.Stats,
		verIDs: map[string][]string{}, allIDs: map[string]bool{}, cs0: &clientState{}}
	for range p.Clients {
		r.cs = append(r.cs, &clientState{})
	}
	r.installHooks()
	defer func() { simrt.DiskHook = nil; simrt.TxHook = nil }()

	budget := int64(3000000)
	for _, c := range p.Clients {
		for _, op := range c {
			if op.Body != nil {
				budget += bodyBudget(op.Body.Size)
			}
			if op.K == "bulk" {
				budget += int64(op.Max) * 40000
			}
			if op.Raw != nil && op.Raw.BodyGen != nil {
				budget += bodyBudget(op.Raw.BodyGen.Size)
			}
		}
	}
	// goskiplist draws tower heights from the global math/rand source and calls
	// back into instrumented comparison closures a number of times that depends
	// on them: pin the global source so that the count of scheduling points is a
	// function of the plan alone.
	rand.Seed(p.Seed)
	// crypto/rand is a seam too (a change that names scratch files after random
	// bytes made runs unrepeatable): its Reader is a variable
	savedCrypto := cryptorand.Reader
	cryptorand.Reader = rand.New(rand.NewSource(p.Seed ^ 0x63727970))
	defer func() { cryptorand.Reader = savedCrypto }()
	sim := simrt.NewSim(p.Seed^0x5eed, p.Config.Policy, p.Schedule, p.Replay, budget)

	switch p.Config.Mode {
	case "lin":
		r.hist = newHistory()
	}
	// setup runs before the simulation (no concurrency, no faults)
	simrt.WaitStrays(2 * time.Second) // (of the run before this one: its end-of-run requests)
	r.inSetup = true
	err = r.setup()
	r.inSetup = false
	// helper goroutines the set-up requests started end before the simulation begins
	simrt.WaitStrays(2 * time.Second)
	if err != nil && !r.stopped() {
		res.Infra = "setup: " + err.Error()
		return
	}
	if r.stopped() {
		// the server's answer to a set-up request is itself a divergence
		env.Close()
		res.Violation, res.Foreign, res.Log = r.viol, r.foreign, r.log
		res.LogHash = hex.EncodeToString(r.logHash[:8])
		return
	}
	r.left = len(p.Clients)
	for ci := range p.Clients {
		ci := ci
		sim.Spawn(fmt.Sprintf("client%d", ci), func() { r.clientLoop(ci) })
	}
	sim.Run()
	res.Schedule = sim.Recorded()
	res.Stats.Steps = sim.Steps()
	res.Stats.HandOffs = sim.HandOffs()
	res.Stats.SchedFP = sim.Fingerprint()
	if sim.BlockedRW > 0 {
		res.Stats.Probes["RLock blocked by pending writer"] += int(sim.BlockedRW)
	}
	if sim.ChanOps > 0 {
		res.Stats.Probes["real channel operations of the code under test (fallback)"] += int(sim.ChanOps)
	}
	if sim.ImplicitBlocks > 0 {
		res.Stats.Probes["baton holder parked inside uninstrumented code (watchdog)"] += int(sim.ImplicitBlocks)
	}
	if sim.PreemptedTx() {
		res.Stats.Probes["bolt transaction body ran goroutines of its own (run not repeatable)"]++
	}
	if sim.BlockedLock > 0 {
		res.Stats.Probes["lock contention (task parked on a lock)"] += int(sim.BlockedLock)
	}
	for _, t := range sim.Tasks() {
		if t.Panic != nil && r.viol == nil {
			res.Infra = fmt.Sprintf("harness panic in %s: %v\n%s", t.Name, t.Panic, t.Stack)
			return
		}
	}
	switch sim.AbortReason {
	case "artifact":
		res.Infra = "simulation artifact: " + sim.AbortDetail
	case "deadlock":
		r.setViol("deadlock", "deadlock: "+normGraph(sim.AbortDetail), "all requests complete", sim.AbortDetail)
	case "wedged":
		if strings.Contains(sim.AbortDetail, "bolt transaction") {
			r.setViol("progress", "a request never completes: "+sim.AbortDetail, "requests complete", sim.AbortDetail)
		} else {
			r.setViol("progress", "requests block behind a client that stopped sending its request body: "+normGraph(sim.AbortDetail), "other requests complete", sim.AbortDetail)
		}
	case "step-budget":
		r.setViol("progress", "no progress within the step budget", "request completes", sim.AbortDetail)
	}
	if !r.stopped() && sim.AbortReason == "" && p.Config.CrashAll {
		r.guard(r.examineCrashes)
	}
	if err := r.Env.Close(); err == ErrCloseHung && r.viol == nil {
		r.setViol("progress", "the store cannot be shut down: a bolt transaction was left open by an earlier request", "close completes", err.Error())
	}
	res.Stats.SimSeconds = env.Clock.Elapsed().Seconds()
	res.Stats.StateFP = r.M.Fingerprint()
	res.Violation = r.viol
	res.Foreign = r.foreign
	res.Log = r.log
	res.LogHash = hex.EncodeToString(r.logHash[:8])
	if tr := sim.Trace(); len(tr) > 0 && r.viol != nil {
		n := len(tr)
		if n > 60 {
			tr = tr[n-60:]
		}
		for _, h := range tr {
			res.Log = append(res.Log, fmt.Sprintf("  sched step=%d task%d->task%d %s", h.Step, h.From, h.To, h.Site))
		}
	}
	return
}

// bodyBudget is the share of the step budget a body of the given size earns:
// generous per byte for small bodies (byte-wise fragmentation), per block for
// the megabytes beyond (nothing handles those byte by byte), so that a loop
// that never ends is cut off in seconds whatever the size.
func bodyBudget(size int) int64 {
	if size <= 1<<20 {
		return int64(size) * 40
	}
	return 40<<20 + int64(size-1<<20)/2
}

// normGraph reduces a wait-for graph to its shape: the multiset of
// "waits for <lock kind> holding <lock kinds>" without task ids or addresses.
func normGraph(s string) string {
	var shapes []string
	for _, part := range strings.Split(s, ";") {
		part = strings.TrimSpace(part)
		i := strings.Index(part, "waits for ")
		if i < 0 {
			continue
		}
		out := []byte{}
		skip := false
		for _, c := range []byte(part[i:]) {
			if c == '@' {
				skip = true
				continue
			}
			if skip {
				if c == ' ' || c == '(' || c == ']' {
					skip = false
				} else {
					continue
				}
			}
			out = append(out, c)
		}
		shapes = append(shapes, string(out))
	}
	sort.Strings(shapes)
	return strings.Join(shapes, "; ")
}

func (r *Run) logf(f string, a ...interface{}) {
	line := fmt.Sprintf(f, a...)
	if len(r.log) < 3000 {
		r.log = append(r.log, line)
	}
	h := sha256.New()
	h.Write(r.logHash[:])
	h.Write([]byte(line))
	copy(r.logHash[:], h.Sum(nil))
}

func tagged(clause, prop string) bool {
	for _, p := range clauseTags[clause] {
		if p == prop {
			return true
		}
	}
	return false
}

func (r *Run) setViol(clause, sig, exp, obs string) {
	v := &Violation{Clause: clause, Signature: r.Prop + "/" + clause + ": " + sig, Expected: exp, Observed: obs, Client: r.curClient, OpIndex: r.curOp}
	if _, ok := clauseTags[clause]; !ok {
		panic("unknown clause " + clause)
	}
	if !tagged(clause, r.Prop) {
		v.Foreign = true
		v.Signature = clauseTags[clause][0] + "/" + clause + ": " + sig
		r.foreign = append(r.foreign, v)
		r.logf("FOREIGN %s", v.Signature)
		return
	}
	if r.viol == nil {
		r.viol = v
		r.logf("VIOLATION %s", v.Signature)
	}
}

// fail records a failed clause and stops the run: model and store have
// diverged (whether or not the clause belongs to the property under check).
func (r *Run) fail(clause, sig, exp, obs string) {
	r.setViol(clause, sig, exp, obs)
	panic(stopRun{})
}

// ok counts a clause evaluation that held.
func (r *Run) ok(clause string) { r.stats.Clauses[clause]++ }

func (r *Run) probe(name string) { r.stats.Probes[name]++ }

func trunc(s string, n int) string {
	if len(s) > n {
		return s[:n] + fmt.Sprintf("...(%d bytes)", len(s))
	}
	return s
}

func (r *Run) stopped() bool { return r.viol != nil || len(r.foreign) > 0 }

func (r *Run) clientLoop(ci int) {
	defer func() {
		p := recover()
		if p != nil {
			if _, ok := p.(stopRun); !ok {
				panic(p)
			}
		}
		r.left--
		if r.left == 0 && !r.stopped() && p == nil {
			// the last client to finish performs the end-of-run checks inside
			// the simulation, so that a lock left behind wedges them too
			simrt.BeginOp(len(r.Plan.Clients[ci]) + 1)
			r.afterRun()
		}
	}()
	for oi := range r.Plan.Clients[ci] {
		if r.stopped() {
			return
		}
		op := &r.Plan.Clients[ci][oi]
		simrt.BeginOp(oi)
		simrt.Point("op")
		r.curClient, r.curOp = ci, oi
		r.beginOp(op)
		r.exec(ci, oi, op)
		// r.cur* may have been changed by other clients meanwhile
		r.curClient, r.curOp = ci, oi
		r.endOp(op)
	}
}

func (r *Run) beginOp(op *Op) {
	me := r.me()
	me.opFaults = op.Faults
	me.fsCall = 0
	me.faulted = false
	for _, f := range op.Faults {
		if f.Kind == "clock" {
			r.Env.Clock.Jump(clockJump(f.At))
			r.stats.Faults["clock-jump"]++
		}
	}
	r.stats.Ops++
	r.armCrash(op)
}

func (r *Run) endOp(op *Op) {
	r.disarmCrash()
	me := r.me()
	me.opFaults = nil
	me.inflight = nil
}

func clockJump(n int) time.Duration { return time.Duration(n) * time.Second }

// installHooks wires the simulated disk to the run's fault plan.
func (r *Run) installHooks() {
	if fs := r.Env.SimFS; fs != nil {
		fs.Hooks = simfs.Hooks{
			Before: func(op, name string, mut bool) error {
				me := r.me()
				me.fsCall++
				if mut && r.Plan.Config.CrashAll && me.inflight != nil {
					r.crashPointFS(me, op, name)
				}
				for _, f := range me.opFaults {
					if f.Kind == "eio" && f.At == me.fsCall && !strings.Contains(name, ".modtime-resolution") {
						r.stats.Faults["disk-eio"]++
						r.stats.Faults["disk-eio@"+strings.TrimPrefix(op, "f.")]++
						me.faulted = true
						r.faultSeen = true
						return syscall.EIO
					}
				}
				return nil
			},
			Write: func(f *simfs.File, p []byte) (int, error) {
				me := r.me()
				if r.Plan.Config.CrashAll && me.inflight != nil && len(p) > 1 {
					r.crashPointTorn(me, f, p)
				}
				for _, ft := range me.opFaults {
					if ft.Kind == "enospc" && ft.At == me.fsCall {
						r.stats.Faults["disk-enospc"]++
						me.faulted = true
						r.faultSeen = true
						keep := ft.N
						if keep >= len(p) {
							keep = len(p) - 1
						}
						if keep < 0 {
							keep = 0
						}
						return keep, syscall.ENOSPC
					}
				}
				return len(p), nil
			},
			Read: func(n int) int {
				for _, ft := range r.me().opFaults {
					if ft.Kind == "shortread" {
						r.stats.Faults["disk-short-read"]++
						m := ft.N
						if m < 1 {
							m = 1
						}
						return m
					}
				}
				return n
			},
		}
	}
	if r.Plan.Config.Backend == "bolt" {
		r.installBoltHooks()
	}
}

func sortedKeys(m map[string]int) []string {
	out := make([]string, 0, len(m))
	for k := range m {
		out = append(out, k)
	}
	sort.Strings(out)
	return out
}
