package engine

import (
	"bytes"
	"crypto/md5"
	"encoding/hex"
	"encoding/xml"
	"fmt"
	"net/url"
	"sort"
	"strconv"
	"strings"
	"time"

	"verif/sim/model"
	"verif/sim/simnet"

	"github.com/anishathalye/porcupine"
)

// ---- register model (one partition per bucket/key)

type regIn struct {
	Kind string // w | d | dv | r
	V    string // value written (md5 hex)
	ID   string // versioned buckets: the version id the write was given / the id to delete
}

type regOut struct {
	V string // value read ("" = absent)
}

// regModel is the per-key register of an unversioned bucket.
var regModel = makeRegModel(false)

// verModel is the per-key version stack of a versioning-enabled bucket:
// writes push, a plain delete pushes a marker, delete-version removes exactly
// that entry, a read sees the newest remaining entry.
var verModel = makeRegModel(true)

func makeRegModel(versioned bool) porcupine.Model {
	return porcupine.Model{
		Init: func() interface{} { return "" },
		Step: func(state, input, output interface{}) (bool, interface{}) {
			st := state.(string)
			in := input.(regIn)
			switch in.Kind {
			case "w":
				if versioned {
					e := in.ID + "|" + in.V
					if st != "" {
						return true, st + "," + e
					}
					return true, e
				}
				return true, in.V
			case "d":
				if versioned && st != "" {
					return true, st + ",-"
				}
				return true, ""
			case "dv":
				parts := strings.Split(st, ",")
				for i, p := range parts {
					if strings.HasPrefix(p, in.ID+"|") {
						parts = append(parts[:i:i], parts[i+1:]...)
						break
					}
				}
				return true, strings.Join(parts, ",")
			case "lv":
				// a version listing's entries for this key: the versions,
				// and which entry is flagged IsLatest
				var vs []string
				top := ""
				if st != "" {
					for _, p := range strings.Split(st, ",") {
						top = p
						if p != "-" {
							vs = append(vs, p[strings.Index(p, "|")+1:])
						}
					}
				}
				sort.Strings(vs) // the order of a key's versions within the listing is not promised
				want := strings.Join(vs, ",") + "#"
				switch {
				case top == "-":
					want += "-"
				case top != "":
					want += top[strings.Index(top, "|")+1:]
				}
				got := output.(regOut).V
				if !versioned {
					// the register: one 'null' version or nothing
					want = st + "#" + st
				}
				if st == "" && (got == "#" || got == "#-") {
					return true, st // a delete marker on a key without versions is the server's business
				}
				return got == want, st
			default:
				top := st
				if i := strings.LastIndex(st, ","); i >= 0 {
					top = st[i+1:]
				}
				if top == "-" {
					top = ""
				} else if i := strings.Index(top, "|"); i >= 0 {
					top = top[i+1:]
				}
				return output.(regOut).V == top, st
			}
		},
		Equal: func(a, b interface{}) bool { return a.(string) == b.(string) },
		DescribeOperation: func(input, output interface{}) string {
			in := input.(regIn)
			switch in.Kind {
			case "w":
				return "write " + short(in.V)
			case "d":
				return "delete"
			case "dv":
				return "delete-version " + short(in.V)
			case "lv":
				return "list-versions -> " + output.(regOut).V
			}
			return "read -> " + short(output.(regOut).V)
		},
	}
}

func short(s string) string {
	if s == "" {
		return "<absent>"
	}
	if len(s) > 8 {
		return s[:8]
	}
	return s
}

// bucketVerModel: whether the bucket ever had versioning, as version listings
// show it (a bucket that never had shows 'null' for every version, one that
// had shows ids for every version; a page showing both matches no instant).
var bucketVerModel = porcupine.Model{
	Init: func() interface{} { return false },
	Step: func(state, input, output interface{}) (bool, interface{}) {
		on := state.(bool)
		switch input.(regIn).Kind {
		case "enable":
			return true, true
		default:
			switch output.(regOut).V {
			case "empty":
				return true, on
			case "null":
				return !on, on
			case "ids":
				return on, on
			}
			return false, on
		}
	},
	Equal: func(a, b interface{}) bool { return a.(bool) == b.(bool) },
	DescribeOperation: func(input, output interface{}) string {
		if input.(regIn).Kind == "enable" {
			return "enable versioning"
		}
		return "list-versions shows " + output.(regOut).V + " ids"
	},
}

// ---- multipart model (one partition per upload id)

type mpuIn struct {
	Kind string // part | complete | abort | lsparts
	N    int
	V    string   // part: md5
	List []string // complete: "n:etag"
}

type mpuOut struct {
	OK    bool
	Parts string // lsparts: what the listing showed, encoded like mpuState.parts
}

type mpuState struct {
	gone  bool
	parts string // "n:md5,n:md5" sorted by n
}

func mpuParts(s string) map[int]string {
	m := map[int]string{}
	if s == "" {
		return m
	}
	for _, p := range strings.Split(s, ",") {
		kv := strings.SplitN(p, ":", 2)
		n, _ := strconv.Atoi(kv[0])
		m[n] = kv[1]
	}
	return m
}

func mpuEncode(m map[int]string) string {
	var ns []int
	for n := range m {
		ns = append(ns, n)
	}
	sort.Ints(ns)
	var out []string
	for _, n := range ns {
		out = append(out, fmt.Sprintf("%d:%s", n, m[n]))
	}
	return strings.Join(out, ",")
}

var mpuModel = porcupine.Model{
	Init: func() interface{} { return mpuState{} },
	Step: func(state, input, output interface{}) (bool, interface{}) {
		st := state.(mpuState)
		in := input.(mpuIn)
		out := output.(mpuOut)
		switch in.Kind {
		case "part":
			if st.gone {
				return !out.OK, st
			}
			if !out.OK {
				return false, st
			}
			m := mpuParts(st.parts)
			m[in.N] = in.V
			return true, mpuState{parts: mpuEncode(m)}
		case "abort":
			if st.gone {
				return !out.OK, st
			}
			return out.OK, mpuState{gone: true}
		case "lsparts":
			if st.gone {
				return !out.OK, st
			}
			return out.OK && out.Parts == st.parts, st
		case "complete-refused": // by a disk error: no effect on the upload
			return true, st
		case "objseen": // the completed object has been read: the completion has taken effect
			return true, mpuState{gone: true}
		case "listed": // ListMultipartUploads shows exactly the pending uploads
			return out.OK == !st.gone, st
		default: // complete
			if st.gone {
				return !out.OK, st
			}
			m := mpuParts(st.parts)
			valid := true
			for _, e := range in.List {
				kv := strings.SplitN(e, ":", 2)
				n, _ := strconv.Atoi(kv[0])
				if m[n] == "" || m[n] != kv[1] {
					valid = false
				}
			}
			if valid != out.OK {
				return false, st
			}
			if out.OK {
				return true, mpuState{gone: true}
			}
			return true, st
		}
	},
	Equal: func(a, b interface{}) bool { return a.(mpuState) == b.(mpuState) },
	DescribeOperation: func(input, output interface{}) string {
		in := input.(mpuIn)
		return fmt.Sprintf("%s n=%d v=%s list=%v -> ok=%v %s", in.Kind, in.N, short(in.V), in.List, output.(mpuOut).OK, output.(mpuOut).Parts)
	},
}

type history struct {
	seq         int64
	parts       map[string][]porcupine.Operation // partition -> ops
	desc        map[string][]string
	bodies      map[string][]byte // md5 -> bytes of every body a client ever sent or the server assembled
	withMeta    map[string]bool   // md5 of bodies uploaded by a plain PUT, which carries x-amz-meta-sum
	verOf       map[string]string // version id -> md5 of the put that got it
	verKey      map[string]string // version id -> bucket/key
	ids         []string
	delVer      map[string]bool   // version ids some client has started to delete
	taint       map[string]bool   // partitions whose content an injected disk fault made indeterminate
	completeSum map[string]string // md5 of the bytes a complete assembles -> upload id
	created     map[string]int64  // upload id -> return stamp of its initiation (uploads of the set-up: absent)
	snap        bool              // snapshot run: operations on keys are also recorded in the partition of all keys
	noSnap      bool
	snapKeys    []string   // the key partitions, in the order of their index in the snapshot partition
	recycles    []*recycle // bucket delete+re-create operations (the bucket may be absent while one is in flight)
}

type recycle struct{ call, ret int64 }

func newHistory() *history {
	return &history{parts: map[string][]porcupine.Operation{}, desc: map[string][]string{}, bodies: map[string][]byte{"d41d8cd98f00b204e9800998ecf8427e": {}}, withMeta: map[string]bool{},
		verOf: map[string]string{}, verKey: map[string]string{}, delVer: map[string]bool{}, taint: map[string]bool{}, completeSum: map[string]string{}, created: map[string]int64{}}
}

func (h *history) tick() int64 { h.seq++; return h.seq }

func (h *history) add(part string, client int, call, ret int64, in, out interface{}, desc string) {
	h.parts[part] = append(h.parts[part], porcupine.Operation{ClientId: client, Input: in, Call: call, Output: out, Return: ret})
	h.desc[part] = append(h.desc[part], fmt.Sprintf("[%d,%d] c%d %s", call, ret, client, desc))
	if ri, ok := in.(regIn); ok && h.snap && !h.noSnap && strings.HasPrefix(part, "k:") && (ri.Kind == "w" || ri.Kind == "d" || ri.Kind == "r") {
		// snapshot runs: the same operation in the partition of all keys
		idx := -1
		for i, k := range h.snapKeys {
			if k == part {
				idx = i
			}
		}
		if idx >= 0 {
			h.parts["s:all"] = append(h.parts["s:all"], porcupine.Operation{ClientId: client, Input: snapIn{Kind: ri.Kind, Idx: idx, V: ri.V}, Call: call, Output: out, Return: ret})
			h.desc["s:all"] = append(h.desc["s:all"], fmt.Sprintf("[%d,%d] c%d %s: %s", call, ret, client, part[2:], desc))
		}
	}
}

// ---- snapshot model: the registers of all keys of the run as one object, so
// that a listing - one operation - shows all of them as they were at one instant

type snapIn struct {
	Kind string // w | d | r | ls
	Idx  int
	V    string
}

var snapModel = porcupine.Model{
	Init: func() interface{} { return "" },
	Step: func(state, input, output interface{}) (bool, interface{}) {
		vals := strings.Split(state.(string), "|")
		in := input.(snapIn)
		for len(vals) <= in.Idx || len(vals) < 2 {
			vals = append(vals, "")
		}
		switch in.Kind {
		case "w":
			vals[in.Idx] = in.V
			return true, strings.Join(vals, "|")
		case "d":
			vals[in.Idx] = ""
			return true, strings.Join(vals, "|")
		case "r":
			return output.(regOut).V == vals[in.Idx], state
		default: // ls: every key as listed
			got := strings.Split(output.(regOut).V, "|")
			for i, g := range got {
				w := ""
				if i < len(vals) {
					w = vals[i]
				}
				if g != w {
					return false, state
				}
			}
			return true, state
		}
	},
	Equal: func(a, b interface{}) bool {
		return strings.TrimRight(a.(string), "|") == strings.TrimRight(b.(string), "|")
	},
	DescribeOperation: func(input, output interface{}) string {
		in := input.(snapIn)
		switch in.Kind {
		case "w":
			return fmt.Sprintf("write key%d %s", in.Idx, short(in.V))
		case "d":
			return fmt.Sprintf("delete key%d", in.Idx)
		case "r":
			return fmt.Sprintf("read key%d -> %s", in.Idx, short(output.(regOut).V))
		}
		return "listing -> " + output.(regOut).V
	},
}

// addSnapshot records a listing in the partition of all keys.
func (h *history) addSnapshot(bucket string, client int, call, ret int64, seen map[string]string, what string) {
	if !h.snap {
		return
	}
	vals := make([]string, len(h.snapKeys))
	for i, p := range h.snapKeys {
		if strings.HasPrefix(p, "k:"+bucket+"/") {
			vals[i] = seen[strings.TrimPrefix(p, "k:"+bucket+"/")]
		}
	}
	out := strings.Join(vals, "|")
	h.parts["s:all"] = append(h.parts["s:all"], porcupine.Operation{ClientId: client, Input: snapIn{Kind: "ls"}, Call: call, Output: regOut{out}, Return: ret})
	h.desc["s:all"] = append(h.desc["s:all"], fmt.Sprintf("[%d,%d] c%d %s -> %s", call, ret, client, what, out))
}

// bucketMayBeAbsent reports whether a delete+re-create of the bucket overlaps
// an operation invoked at opCall and answered now.
func (h *history) bucketMayBeAbsent(opCall int64) bool {
	for _, rc := range h.recycles {
		if rc.ret == 0 || rc.ret >= opCall {
			return true
		}
	}
	return false
}

func md5hex(b []byte) string {
	s := md5.Sum(b)
	return hex.EncodeToString(s[:])
}

// linFail reports a directly observed C07 violation.
func (r *Run) linFail(clause, sig, exp, obs string) { r.fail(clause, sig+" "+r.bctx(), exp, obs) }

// checkReadIntegrity: the bytes of a successful GET are exactly one upload's
// bytes and the entity headers describe those bytes.
func (r *Run) checkReadIntegrity(resp *Resp, head bool, what string) (val string) {
	et := strings.Trim(resp.Header.Get("ETag"), `"`)
	if head {
		if len(resp.Body) != 0 {
			r.linFail("lin.integrity", "HEAD returns a body", "empty", fmt.Sprint(len(resp.Body)))
		}
		if i := strings.Index(et, "-"); i > 0 {
			et = et[:i]
		}
		body, ok := r.hist.bodies[et]
		if !ok {
			r.linFail("lin.integrity", what+" reports an ETag that is no upload's MD5", "the MD5 of some upload", et)
		}
		if cl := resp.Header.Get("Content-Length"); cl != strconv.Itoa(len(body)) {
			r.linFail("lin.integrity", what+" reports a Content-Length that does not match the body its ETag names", strconv.Itoa(len(body)), cl)
		}
		r.checkReadMeta(resp, et, what)
		r.ok("lin.integrity")
		return et
	}
	sum := md5hex(resp.Body)
	if _, ok := r.hist.bodies[sum]; !ok {
		r.probe("torn or mixed read observed")
		r.linFail("lin.integrity", what+" returns bytes that are not the body of any single upload (mixture or truncation)", "the full body of one upload", describeBody(resp.Body)+" etag="+et+" content-length="+resp.Header.Get("Content-Length"))
	}
	if cl := resp.Header.Get("Content-Length"); cl != "" && cl != strconv.Itoa(len(resp.Body)) {
		r.linFail("lin.integrity", what+" Content-Length does not match the bytes served", strconv.Itoa(len(resp.Body)), cl)
	}
	if et != sum && !strings.HasPrefix(et, sum+"-") {
		if i := strings.Index(et, "-"); !(i > 0 && r.altETagOK(et, sum)) {
			r.linFail("lin.integrity", what+" ETag does not match the bytes served", sum, et)
		}
	}
	r.checkReadMeta(resp, sum, what)
	r.ok("lin.integrity")
	return sum
}

// checkReadMeta: the metadata a read returns belongs to the upload whose
// bytes it returns.
func (r *Run) checkReadMeta(resp *Resp, sum, what string) {
	if !r.hist.withMeta[sum] {
		// assembled by a complete or written without the header: the server
		// merges the metadata of the object it replaces, nothing to demand
		return
	}
	ms := resp.Header.Get("X-Amz-Meta-Sum")
	switch {
	case ms == "":
		r.linFail("lin.integrity", what+" returns the body of an upload without the metadata sent with it", "x-amz-meta-sum: "+sum, "no such header")
	case ms != sum:
		r.probe("body of one upload with the metadata of another observed")
		r.linFail("lin.integrity", what+" returns the body of one upload with the metadata of another", "x-amz-meta-sum: "+sum, "x-amz-meta-sum: "+ms)
	}
}

func (r *Run) altETagOK(et, sum string) bool {
	return r.hist.bodies[sum] != nil && strings.Contains(et, "-")
}

func (r *Run) execLin(ci, oi int, op *Op) {
	h := r.hist
	part := "k:" + op.B + "/" + op.Key
	// mustOK: false means the operation legitimately met a bucket that another
	// client is deleting and re-creating; it had no effect and is not recorded
	mustOK := func(resp *Resp, what string, call int64) bool {
		r.noPanic(resp, what)
		if resp.Status == 404 && (resp.Code == "NoSuchBucket" || len(resp.Body) == 0) && h.bucketMayBeAbsent(call) {
			r.probe("request met the bucket while it was being deleted and re-created")
			return false
		}
		if !resp.OK() && resp.Status < 500 && r.Plan.Config.PathKeys && r.Plan.Config.IsFS() && op.K != "del" {
			// the key universe of this run holds a key below another key: a
			// file-system backend refuses the one that comes second; the
			// refused request has no effect and is not recorded
			r.probe("upload refused: key in a path relation with a stored key (concurrent run)")
			return false
		}
		if !resp.OK() {
			r.linFail("lin.register", what+" fails although nothing can make it fail in a sequential execution", "2xx", resp.String()+" "+resp.Msg)
		}
		return true
	}
	switch op.K {
	case "put":
		body := BodyBytes(r.Plan.Seed, op.Body)
		sum := md5hex(body)
		h.bodies[sum] = body
		// every upload carries a metadata header naming its own body: a read
		// must never pair the bytes of one upload with the metadata of another
		preq := r.putRequest(op, target(op.B, op.Key, nil), body)
		preq.Headers = append(preq.Headers, [2]string{"X-Amz-Meta-Sum", sum})
		h.withMeta[sum] = true
		call := h.tick()
		resp := r.send(preq, op.Faults, r.frag(op))
		ret := h.tick()
		if !mustOK(resp, "PUT object", call) {
			return
		}
		if et := strings.Trim(resp.Header.Get("ETag"), `"`); et != sum {
			r.linFail("lin.integrity", "PUT response ETag is not the MD5 of the uploaded bytes", sum, et)
		}
		if id := resp.Header.Get("x-amz-version-id"); r.Plan.Config.Versioned {
			if id == "" {
				r.linFail("lin.version", "a versioned upload gets no version id", "id", "none")
			}
			if _, dup := h.verOf[id]; dup {
				r.linFail("lin.version", "two versioned uploads get the same version id", "distinct ids", id)
			}
			h.verOf[id], h.verKey[id] = sum, op.B+"/"+op.Key
			h.ids = append(h.ids, id)
			r.ok("lin.version")
		}
		h.add(part, ci, call, ret, regIn{Kind: "w", V: sum, ID: resp.Header.Get("x-amz-version-id")}, regOut{}, fmt.Sprintf("put %s (%d bytes)", short(sum), len(body)))
		r.logf("c%d#%d put %s/%q %s [%d,%d] -> %s", ci, oi, op.B, op.Key, short(sum), call, ret, resp.String())
		r.stats.Mutations++
	case "get", "head":
		head := op.K == "head"
		m := "GET"
		if head {
			m = "HEAD"
		}
		if op.Ver != 0 && len(h.ids) > 0 {
			id := h.ids[(op.Ver-1+len(h.ids))%len(h.ids)]
			bk := strings.SplitN(h.verKey[id], "/", 2)
			resp := r.simple(m, target(bk[0], bk[1], url.Values{"versionId": {id}}), op)
			r.noPanic(resp, m+" version")
			if resp.Status == 404 && h.delVer[id] {
				return // some client is deleting (or has deleted) exactly this version
			}
			if resp.Status != 200 {
				r.linFail("lin.version", m+" of an issued version id fails", "200", resp.String())
			}
			if got := r.checkReadIntegrity(resp, head, m+" ?versionId"); got != h.verOf[id] {
				r.linFail("lin.version", "the content of a version id is not exactly the upload that was given that id", h.verOf[id], got)
			}
			r.ok("lin.version")
			r.logf("c%d#%d %s version %s -> %s", ci, oi, m, short(id[len(id)-10:]), resp.String())
			return
		}
		call := h.tick()
		resp := r.simple(m, target(op.B, op.Key, nil), op)
		ret := h.tick()
		r.noPanic(resp, m+" object")
		val := ""
		switch {
		case resp.Status == 200:
			if resp.WriteFailed {
				r.logf("c%d#%d %s %q client hung up", ci, oi, m, op.Key)
				return
			}
			val = r.checkReadIntegrity(resp, head, m)
			if id, ok := h.completeSum[val]; ok && !head {
				// these bytes exist only as the assembly of that upload: whoever
				// reads them has seen its completion take effect, and from then on
				// the upload is gone for everybody
				h.add("u:"+id, ci, call, ret, mpuIn{Kind: "objseen"}, mpuOut{}, "GET returns the object this upload was completed into")
				r.probe("a read returned the object of a completed upload (concurrent run)")
			}
		case resp.Status == 404 && (head || resp.Code == "NoSuchKey"):
		case resp.Status == 404 && resp.Code == "NoSuchBucket" && h.bucketMayBeAbsent(call):
			// the bucket can only be deleted while it is empty: the key is absent
		default:
			r.linFail("lin.register", m+" answers neither the object nor NoSuchKey", "200 or 404 NoSuchKey", resp.String()+" "+resp.Msg)
		}
		h.add(part, ci, call, ret, regIn{Kind: "r"}, regOut{val}, fmt.Sprintf("%s -> %s", op.K, short(val)))
		r.logf("c%d#%d %s %s/%q [%d,%d] -> %s %s", ci, oi, op.K, op.B, op.Key, call, ret, resp.String(), short(val))
	case "del":
		if op.Ver != 0 {
			// delete a specific version: one this key was given earlier in the run
			var mine []string
			for _, id := range h.ids {
				if h.verKey[id] == op.B+"/"+op.Key {
					mine = append(mine, id)
				}
			}
			if len(mine) == 0 {
				return
			}
			id := mine[(op.Ver-1+len(mine))%len(mine)]
			h.delVer[id] = true
			call := h.tick()
			resp := r.simple("DELETE", target(op.B, op.Key, url.Values{"versionId": {id}}), op)
			ret := h.tick()
			mustOK(resp, "DELETE ?versionId", call)
			h.add(part, ci, call, ret, regIn{Kind: "dv", V: h.verOf[id], ID: id}, regOut{}, "delete-version "+short(h.verOf[id]))
			r.logf("c%d#%d delver %s/%q %s [%d,%d] -> %s", ci, oi, op.B, op.Key, short(h.verOf[id]), call, ret, resp.String())
			r.probe("delete-version in a concurrent run")
			r.stats.Mutations++
			return
		}
		call := h.tick()
		resp := r.simple("DELETE", target(op.B, op.Key, nil), op)
		ret := h.tick()
		if !mustOK(resp, "DELETE object", call) {
			return
		}
		h.add(part, ci, call, ret, regIn{Kind: "d"}, regOut{}, "delete")
		r.logf("c%d#%d del %s/%q [%d,%d] -> %s", ci, oi, op.B, op.Key, call, ret, resp.String())
		r.stats.Mutations++
	case "copy":
		hdr := [][2]string{{"X-Amz-Copy-Source", "/" + op.SrcB + "/" + url.QueryEscape(op.SrcKey)}}
		call := h.tick()
		resp := r.send(&simnet.Request{Method: "PUT", Target: target(op.B, op.Key, nil), Headers: hdr}, op.Faults, r.frag(op))
		ret := h.tick()
		r.noPanic(resp, "copy object")
		src := "k:" + op.SrcB + "/" + op.SrcKey
		switch {
		case resp.Status == 200:
			var x xCopyResult
			if xml.Unmarshal(resp.Body, &x) != nil {
				r.linFail("lin.register", "copy answers 200 without a CopyObjectResult", "CopyObjectResult", trunc(string(resp.Body), 100))
			}
			v := strings.Trim(x.ETag, `"`)
			if _, ok := h.bodies[v]; !ok {
				r.linFail("lin.integrity", "copy reports an ETag that is no upload's MD5", "some upload", v)
			}
			h.add(src, ci, call, ret, regIn{Kind: "r"}, regOut{v}, "copy-read -> "+short(v))
			h.add(part, ci, call, ret, regIn{Kind: "w", V: v, ID: fmt.Sprintf("copy%d", call)}, regOut{}, "copy-write "+short(v))
			r.stats.Mutations++
		case resp.Status == 404 && resp.Code == "NoSuchKey":
			h.add(src, ci, call, ret, regIn{Kind: "r"}, regOut{""}, "copy-read -> <absent>")
		case resp.Status == 404 && resp.Code == "NoSuchBucket" && h.bucketMayBeAbsent(call):
		case resp.Status >= 400 && resp.Status < 500 && r.Plan.Config.PathKeys && r.Plan.Config.IsFS():
			// the destination lies below a stored key (or above one): refused, no effect;
			// what the copy read of its source is not known and not recorded
			r.probe("upload refused: key in a path relation with a stored key (concurrent run)")
		default:
			r.linFail("lin.register", "copy answers neither success nor NoSuchKey", "200 or 404", resp.String()+" "+resp.Msg)
		}
		r.logf("c%d#%d copy %q <- %q [%d,%d] -> %s", ci, oi, op.Key, op.SrcKey, call, ret, resp.String())
	case "list":
		var lq url.Values
		if op.Delim != "" {
			lq = url.Values{"delimiter": {op.Delim}}
		}
		call := h.tick()
		resp := r.simple("GET", target(op.B, "", lq), op)
		ret := h.tick()
		r.noPanic(resp, "list objects")
		var x xListResult
		if resp.Status == 404 && resp.Code == "NoSuchBucket" && h.bucketMayBeAbsent(call) {
			return
		}
		if resp.Status != 200 || xml.Unmarshal(resp.Body, &x) != nil {
			r.linFail("lin.register", "ListObjects fails", "200", resp.String()+" "+resp.Msg)
		}
		seen := map[string]string{}
		for _, c := range x.Contents {
			et := strings.Trim(c.ETag, `"`)
			body, ok := h.bodies[et]
			if !ok {
				r.linFail("lin.integrity", "a key is listed with an ETag that is no upload's MD5", "some upload", c.Key+" "+et)
			}
			if int64(len(body)) != c.Size {
				r.linFail("lin.integrity", "a key is listed with a Size that does not belong to its ETag", fmt.Sprint(len(body)), fmt.Sprint(c.Size))
			}
			seen[c.Key] = et
		}
		h.noSnap = true
		for _, k := range op.Keys {
			h.add("k:"+op.B+"/"+k.Key, ci, call, ret, regIn{Kind: "r"}, regOut{seen[k.Key]}, "list -> "+short(seen[k.Key]))
		}
		h.noSnap = false
		h.addSnapshot(op.B, ci, call, ret, seen, "list")
		r.logf("c%d#%d list [%d,%d] -> %d keys", ci, oi, call, ret, len(x.Contents))
	case "lsversions":
		vq := url.Values{"versions": {""}}
		if op.Delim != "" {
			vq.Set("delimiter", op.Delim)
		}
		call := h.tick()
		resp := r.simple("GET", target(op.B, "", vq), op)
		ret := h.tick()
		r.noPanic(resp, "list object versions")
		if resp.Status == 404 && resp.Code == "NoSuchBucket" && h.bucketMayBeAbsent(call) {
			return
		}
		x, err := parseVersions(resp.Body)
		if resp.Status != 200 || err != nil {
			r.linFail("lin.register", "ListObjectVersions fails", "200", resp.String()+" "+resp.Msg)
		}
		// per key: the versions and the flagged entry
		vers := map[string][]string{}
		latest := map[string]string{}
		kinds := map[string]int{}
		for _, e := range x.Entries {
			et := strings.Trim(e.ETag, `"`)
			if !e.Marker {
				if _, ok := h.bodies[et]; !ok {
					r.linFail("lin.integrity", "a version is listed with an ETag that is no upload's MD5", "some upload", e.Key+" "+et)
				}
				if sum, ok := h.verOf[e.VersionID]; ok && sum != et {
					r.linFail("lin.version", "a version id is listed with another upload's ETag than the upload that was given the id", sum, et)
				}
				vers[e.Key] = append(vers[e.Key], et)
				if e.VersionID == "null" {
					kinds["null"]++
				} else {
					kinds["id"]++
				}
			}
			if e.IsLatest {
				switch {
				case latest[e.Key] != "":
					latest[e.Key] = "multi"
				case e.Marker:
					latest[e.Key] = "-"
				default:
					latest[e.Key] = et
				}
			}
		}
		if h.snap {
			// never-versioned snapshot run: one 'null' version per stored key
			seen := map[string]string{}
			for k, v := range vers {
				if len(v) == 1 {
					seen[k] = v[0]
				} else {
					seen[k] = "several versions: " + strings.Join(v, ",")
				}
			}
			h.noSnap = true
			for _, k := range op.Keys {
				h.add("k:"+op.B+"/"+k.Key, ci, call, ret, regIn{Kind: "r"}, regOut{seen[k.Key]}, "list-versions -> "+short(seen[k.Key]))
			}
			h.noSnap = false
			h.addSnapshot(op.B, ci, call, ret, seen, "list-versions")
		} else if !r.Plan.Config.LinSetVer {
			for _, k := range op.Keys {
				sort.Strings(vers[k.Key])
				out := strings.Join(vers[k.Key], ",") + "#" + latest[k.Key]
				h.add("k:"+op.B+"/"+k.Key, ci, call, ret, regIn{Kind: "lv"}, regOut{out}, "list-versions -> "+out)
			}
		} else {
			// the run switches versioning on for the first time under the
			// listings: a listing shows the bucket before or after the switch
			cls := "empty"
			switch {
			case kinds["null"] > 0 && kinds["id"] > 0:
				cls = "mixed"
			case kinds["null"] > 0:
				cls = "null"
			case kinds["id"] > 0:
				cls = "ids"
			}
			h.add("b:"+op.B, ci, call, ret, regIn{Kind: "lvb"}, regOut{cls}, "list-versions shows "+cls+" version ids")
		}
		r.probe("version listing in a concurrent run")
		r.logf("c%d#%d lsversions [%d,%d] -> %d entries", ci, oi, call, ret, len(x.Entries))
	case "setver":
		body := `<VersioningConfiguration xmlns="http://s3.amazonaws.com/doc/2006-03-01/"><Status>Enabled</Status></VersioningConfiguration>`
		call := h.tick()
		resp := r.send(&simnet.Request{Method: "PUT", Target: target(op.B, "", url.Values{"versioning": {""}}),
			Headers: [][2]string{{"Content-Length", strconv.Itoa(len(body))}}, Body: []byte(body)}, op.Faults, r.frag(op))
		ret := h.tick()
		if !mustOK(resp, "PUT versioning", call) {
			return
		}
		h.add("b:"+op.B, ci, call, ret, regIn{Kind: "enable"}, regOut{}, "enable versioning")
		r.logf("c%d#%d setver [%d,%d] -> %s", ci, oi, call, ret, resp.String())
	case "delmulti":
		var body bytes.Buffer
		body.WriteString("<Delete>")
		vids := make([]string, len(op.Keys))
		for i, k := range op.Keys {
			body.WriteString("<Object><Key>")
			xml.EscapeText(&body, []byte(k.Key))
			body.WriteString("</Key>")
			if k.Ver != 0 && r.Plan.Config.Versioned {
				// one of the ids this key was given earlier in the run
				var mine []string
				for _, id := range h.ids {
					if h.verKey[id] == op.B+"/"+k.Key {
						mine = append(mine, id)
					}
				}
				if len(mine) > 0 {
					vids[i] = mine[(k.Ver-1+len(mine))%len(mine)]
					h.delVer[vids[i]] = true
					body.WriteString("<VersionId>" + vids[i] + "</VersionId>")
					r.probe("multi-delete naming versions in a concurrent run")
				}
			}
			body.WriteString("</Object>")
		}
		body.WriteString("</Delete>")
		call := h.tick()
		resp := r.send(&simnet.Request{Method: "POST", Target: target(op.B, "", url.Values{"delete": {""}}),
			Headers: [][2]string{{"Content-Length", strconv.Itoa(body.Len())}}, Body: body.Bytes()}, op.Faults, r.frag(op))
		ret := h.tick()
		if !mustOK(resp, "multi-delete", call) {
			return
		}
		for i, k := range op.Keys {
			if vids[i] != "" {
				h.add("k:"+op.B+"/"+k.Key, ci, call, ret, regIn{Kind: "dv", V: h.verOf[vids[i]], ID: vids[i]}, regOut{}, "multi-delete-version "+short(h.verOf[vids[i]]))
				continue
			}
			h.add("k:"+op.B+"/"+k.Key, ci, call, ret, regIn{Kind: "d"}, regOut{}, "multi-delete")
		}
		r.stats.Mutations++
		r.logf("c%d#%d delmulti [%d,%d] -> %s", ci, oi, call, ret, resp.String())
	case "recycle":
		// delete the bucket (possible only while it is empty) and create it again
		rc := &recycle{call: h.tick()}
		h.recycles = append(h.recycles, rc)
		resp := r.simple("DELETE", target(op.B, "", nil), op)
		dret := h.tick()
		r.noPanic(resp, "delete bucket")
		switch {
		case resp.Status == 204:
			for _, k := range op.Keys {
				h.add("k:"+op.B+"/"+k.Key, ci, rc.call, dret, regIn{Kind: "r"}, regOut{""}, "bucket deleted -> <absent>")
			}
			mk := r.simple("PUT", target(op.B, "", nil), op)
			r.noPanic(mk, "create bucket")
			if !mk.OK() && mk.Status != 409 {
				r.linFail("lin.register", "re-creating a deleted bucket fails", "200", mk.String())
			}
			r.probe("bucket deleted and re-created while other clients were active")
			r.stats.Mutations++
		case resp.Status == 409 && resp.Code == "BucketNotEmpty":
		case resp.Status == 404 && h.bucketMayBeAbsent(rc.call):
		default:
			r.linFail("lin.register", "deleting a bucket answers neither success, BucketNotEmpty nor NoSuchBucket", "204, 409 or 404", resp.String()+" "+resp.Msg)
		}
		rc.ret = h.tick()
		r.logf("c%d#%d recycle %s [%d,%d] -> %s", ci, oi, op.B, rc.call, rc.ret, resp.String())
	case "mpu-part":
		u := r.upload(op.Up)
		if u == nil {
			return
		}
		body := BodyBytes(r.Plan.Seed, op.Body)
		sum := md5hex(body)
		h.bodies[sum] = body
		q := url.Values{"uploadId": {u.ID}, "partNumber": {strconv.Itoa(op.Part)}}
		call := h.tick()
		resp := r.send(r.putRequest(op, target(u.Bucket, u.Key, q), body), op.Faults, r.frag(op))
		ret := h.tick()
		r.noPanic(resp, "upload part")
		if resp.OK() {
			if et := strings.Trim(resp.Header.Get("ETag"), `"`); et != sum {
				r.linFail("lin.integrity", "upload-part ETag is not the MD5 of the part's bytes", sum, et)
			}
		} else if resp.Status != 404 {
			r.linFail("lin.mpu", "upload-part answers neither success nor NoSuchUpload", "200 or 404", resp.String()+" "+resp.Msg)
		}
		h.add("u:"+u.ID, ci, call, ret, mpuIn{Kind: "part", N: op.Part, V: sum}, mpuOut{OK: resp.OK()}, fmt.Sprintf("part %d %s ok=%v", op.Part, short(sum), resp.OK()))
		r.logf("c%d#%d part up=%s n=%d %s [%d,%d] -> %s", ci, oi, u.ID, op.Part, short(sum), call, ret, resp.String())
	case "mpu-complete":
		u := r.upload(op.Up)
		if u == nil || len(op.Parts) == 0 {
			return
		}
		// the client lists the ETags it was given for its own acknowledged parts:
		// symbolic "latest acknowledged by anyone so far"
		var list []string
		var b bytes.Buffer
		b.WriteString("<CompleteMultipartUpload>")
		for _, p := range op.Parts {
			et := r.lastAckedPart(u.ID, p.N)
			if et == "" {
				et = "00000000000000000000000000000000"
			}
			list = append(list, fmt.Sprintf("%d:%s", p.N, et))
			fmt.Fprintf(&b, "<Part><PartNumber>%d</PartNumber><ETag>%s</ETag></Part>", p.N, et)
		}
		b.WriteString("</CompleteMultipartUpload>")
		// the assembled object becomes readable by others before this client
		// sees the response: register its bytes up front
		var whole []byte
		for _, e := range list {
			whole = append(whole, h.bodies[strings.SplitN(e, ":", 2)[1]]...)
		}
		sum := md5hex(whole)
		h.bodies[sum] = whole
		h.completeSum[sum] = u.ID
		call := h.tick()
		resp := r.send(&simnet.Request{Method: "POST", Target: target(u.Bucket, u.Key, url.Values{"uploadId": {u.ID}}),
			Headers: [][2]string{{"Content-Length", strconv.Itoa(b.Len())}}, Body: b.Bytes()}, op.Faults, r.frag(op))
		ret := h.tick()
		r.noPanic(resp, "complete multipart upload")
		if resp.Status >= 500 && r.me().faulted {
			// one disk call of this request failed: the complete is refused and
			// the upload stays as it was - pending, listed, with its parts - for
			// everybody at every moment (the object's key may have lost its
			// previous content: the fs backends unlink before they create)
			h.add("u:"+u.ID, ci, call, ret, mpuIn{Kind: "complete-refused", List: list}, mpuOut{}, fmt.Sprintf("complete %v refused after a disk error", list))
			h.taint["k:"+u.Bucket+"/"+u.Key] = true
			r.faultSeen = true
			r.probe("complete refused after a disk error in a concurrent run")
			r.logf("c%d#%d complete up=%s %v [%d,%d] -> %s (disk fault)", ci, oi, u.ID, list, call, ret, resp.String())
			return
		}
		if resp.Status >= 500 {
			r.linFail("lin.mpu", "complete answers a server error", "200 or 4xx", resp.String()+" "+resp.Msg)
		}
		h.add("u:"+u.ID, ci, call, ret, mpuIn{Kind: "complete", List: list}, mpuOut{OK: resp.OK()}, fmt.Sprintf("complete %v ok=%v", list, resp.OK()))
		if resp.OK() {
			h.add("k:"+u.Bucket+"/"+u.Key, ci, call, ret, regIn{Kind: "w", V: sum, ID: fmt.Sprintf("mpu%d", call)}, regOut{}, "complete-write "+short(sum))
			r.probe("complete succeeded in a concurrent run")
			r.stats.Mutations++
		}
		r.logf("c%d#%d complete up=%s %v [%d,%d] -> %s", ci, oi, u.ID, list, call, ret, resp.String())
	case "mpu-abort":
		u := r.upload(op.Up)
		if u == nil {
			return
		}
		call := h.tick()
		resp := r.send(&simnet.Request{Method: "DELETE", Target: target(u.Bucket, u.Key, url.Values{"uploadId": {u.ID}})}, op.Faults, r.frag(op))
		ret := h.tick()
		r.noPanic(resp, "abort multipart upload")
		if !resp.OK() && resp.Status != 404 {
			r.linFail("lin.mpu", "abort answers neither success nor NoSuchUpload", "204 or 404", resp.String()+" "+resp.Msg)
		}
		h.add("u:"+u.ID, ci, call, ret, mpuIn{Kind: "abort"}, mpuOut{OK: resp.OK()}, fmt.Sprintf("abort ok=%v", resp.OK()))
		if resp.OK() {
			r.probe("abort succeeded in a concurrent run")
		}
		r.logf("c%d#%d abort up=%s [%d,%d] -> %s", ci, oi, u.ID, call, ret, resp.String())
	case "mpu-init":
		// an upload initiated while the others run
		call := h.tick()
		resp := r.send(&simnet.Request{Method: "POST", Target: target(op.B, op.Key, url.Values{"uploads": {""}})}, op.Faults, r.frag(op))
		ret := h.tick()
		if !mustOK(resp, "initiate multipart upload", call) {
			return
		}
		var x xInitResult
		if xml.Unmarshal(resp.Body, &x) != nil || x.UploadID == "" {
			r.linFail("lin.mpu", "InitiateMultipartUpload answers no upload id", "UploadId", trunc(string(resp.Body), 200))
		}
		for _, u := range r.uploads {
			if u.ID == x.UploadID {
				r.linFail("lin.mpu", "two initiations are given the same upload id", "distinct ids", x.UploadID)
			}
		}
		r.uploads = append(r.uploads, &model.Upload{ID: x.UploadID, Bucket: op.B, Key: op.Key, Parts: map[int]*model.Entity{}})
		h.created[x.UploadID] = ret
		r.probe("upload initiated in a concurrent run")
		r.logf("c%d#%d init %s/%q [%d,%d] -> %s", ci, oi, op.B, op.Key, call, ret, x.UploadID)
	case "mpu-lsuploads":
		// ListMultipartUploads: for every upload of the run one observation,
		// "is pending" or "is not"
		bkt := op.B
		call := h.tick()
		resp := r.send(&simnet.Request{Method: "GET", Target: target(bkt, "", url.Values{"uploads": {""}})}, op.Faults, r.frag(op))
		ret := h.tick()
		r.noPanic(resp, "list multipart uploads")
		var x xUploadsResult
		if resp.Status != 200 || xml.Unmarshal(resp.Body, &x) != nil {
			r.linFail("lin.mpu", "ListMultipartUploads fails", "200", resp.String()+" "+resp.Msg)
		}
		shown := map[string]string{}
		for _, u := range x.Uploads {
			if _, dup := shown[u.UploadID]; dup {
				r.linFail("lin.mpu", "ListMultipartUploads shows an upload twice", "once", u.UploadID)
			}
			shown[u.UploadID] = u.Key
		}
		for _, u := range r.uploads {
			if u.Bucket != bkt || h.created[u.ID] >= call {
				continue // (initiated while this listing was already under way, or later)
			}
			k, ok := shown[u.ID]
			if ok && k != u.Key {
				r.linFail("lin.mpu", "ListMultipartUploads shows an upload under another key than it was initiated for", u.Key, k)
			}
			h.add("u:"+u.ID, ci, call, ret, mpuIn{Kind: "listed"}, mpuOut{OK: ok}, fmt.Sprintf("list-uploads shows it: %v", ok))
		}
		r.probe("upload listing in a concurrent run")
		r.logf("c%d#%d lsuploads [%d,%d] -> %d uploads", ci, oi, call, ret, len(x.Uploads))
	case "mpu-lsparts":
		u := r.upload(op.Up)
		if u == nil {
			return
		}
		call := h.tick()
		resp := r.send(&simnet.Request{Method: "GET", Target: target(u.Bucket, u.Key, url.Values{"uploadId": {u.ID}})}, op.Faults, r.frag(op))
		ret := h.tick()
		r.noPanic(resp, "list parts")
		out := mpuOut{OK: resp.Status == 200}
		if resp.Status == 200 {
			var x xPartsResult
			if err := xml.Unmarshal(resp.Body, &x); err != nil {
				r.linFail("lin.mpu", "ListParts answers a body that does not parse", "ListPartsResult", trunc(string(resp.Body), 200))
			}
			m := map[int]string{}
			for _, p := range x.Parts {
				m[p.PartNumber] = strings.Trim(p.ETag, `"`)
			}
			out.Parts = mpuEncode(m)
			if x.IsTruncated {
				out.Parts += ",truncated"
			}
		} else if resp.Status != 404 {
			r.linFail("lin.mpu", "ListParts answers neither success nor NoSuchUpload", "200 or 404", resp.String()+" "+resp.Msg)
		}
		h.add("u:"+u.ID, ci, call, ret, mpuIn{Kind: "lsparts"}, out, fmt.Sprintf("lsparts ok=%v %s", out.OK, out.Parts))
		r.logf("c%d#%d lsparts up=%s [%d,%d] -> %s %s", ci, oi, u.ID, call, ret, resp.String(), out.Parts)
	default:
		panic("lin op " + op.K)
	}
}

// lastAckedPart returns the md5 of the most recently acknowledged upload of
// part n of the upload (by return order), "" if none.
func (r *Run) lastAckedPart(id string, n int) string {
	best, bestRet := "", int64(-1)
	for _, o := range r.hist.parts["u:"+id] {
		in := o.Input.(mpuIn)
		if in.Kind == "part" && in.N == n && o.Output.(mpuOut).OK && o.Return > bestRet {
			best, bestRet = in.V, o.Return
		}
	}
	return best
}

// setupLin initiates the multipart uploads the clients share.
func (r *Run) setupLin() error {
	cfg := r.Plan.Config
	if cfg.LinSnap {
		r.hist.snap = true
		for _, k := range cfg.LinKeys {
			r.hist.snapKeys = append(r.hist.snapKeys, "k:"+cfg.Buckets[0]+"/"+k)
		}
	}
	for i := 0; i < cfg.LinFill; i++ {
		body := []byte(fmt.Sprintf("f%d", i))
		if _, err := r.Env.Backend.PutObject(cfg.Buckets[0], fmt.Sprintf("bulk/%05d", i), map[string]string{}, bytes.NewReader(body), int64(len(body))); err != nil {
			return fmt.Errorf("filler object: %v", err)
		}
	}
	for _, op := range r.Plan.Config.linUploads() {
		req := &simnet.Request{Method: "POST", Target: target(op[0], op[1], url.Values{"uploads": {""}})}
		resp := r.send(req, nil, "whole")
		var x xInitResult
		if resp.Status != 200 || xml.Unmarshal(resp.Body, &x) != nil {
			return fmt.Errorf("initiate upload: %s", resp.String())
		}
		r.uploads = append(r.uploads, &model.Upload{ID: x.UploadID, Bucket: op[0], Key: op[1], Parts: map[int]*model.Entity{}})
	}
	return nil
}

// afterLin reads the quiescent final state and checks every partition.
func (r *Run) afterLin() {
	h := r.hist
	var parts []string
	for p := range h.parts {
		parts = append(parts, p)
	}
	sort.Strings(parts)
	for _, p := range parts {
		if !strings.HasPrefix(p, "k:") {
			continue
		}
		bk := strings.SplitN(p[2:], "/", 2)
		call := h.tick()
		resp := r.quiet("GET", target(bk[0], bk[1], nil))
		ret := h.tick()
		r.noPanic(resp, "GET object")
		val := ""
		if resp.Status == 200 {
			val = r.checkReadIntegrity(resp, false, "final GET")
		} else if resp.Status != 404 {
			r.linFail("lin.register", "final GET answers neither the object nor NoSuchKey", "200 or 404", resp.String())
		}
		h.add(p, 999, call, ret, regIn{Kind: "r"}, regOut{val}, "final read -> "+short(val))
	}
	// reach probes: how often did the schedules actually overlap operations?
	for _, p := range parts {
		ops := h.parts[p]
		for i := range ops {
			for j := range ops {
				if i >= j || ops[i].ClientId == ops[j].ClientId || ops[i].Call > ops[j].Return || ops[j].Call > ops[i].Return {
					continue
				}
				a, aok := ops[i].Input.(regIn)
				b, bok := ops[j].Input.(regIn)
				if aok && bok {
					switch {
					case a.Kind == "r" && b.Kind == "w", a.Kind == "w" && b.Kind == "r":
						r.probe("read overlapped a write of the same key")
					case a.Kind == "w" && b.Kind == "w":
						r.probe("two writes of the same key overlapped")
					case a.Kind == "lv" && b.Kind != "lv" && b.Kind != "r", b.Kind == "lv" && a.Kind != "lv" && a.Kind != "r":
						r.probe("a version listing overlapped a change of a key it shows")
					case a.Kind == "lvb" && b.Kind == "enable", a.Kind == "enable" && b.Kind == "lvb":
						r.probe("a version listing overlapped the first enabling of versioning")
					case a.Kind == "d" || b.Kind == "d":
						r.probe("a delete overlapped another operation on the key")
					}
				}
				if am, ok := ops[i].Input.(mpuIn); ok {
					if bm, ok := ops[j].Input.(mpuIn); ok && (am.Kind == "complete") != (bm.Kind == "complete") {
						r.probe("upload-part overlapped complete of the same upload")
					}
				}
			}
		}
	}
	timeout := 15 * time.Second
	for _, p := range parts {
		ops := h.parts[p]
		m := regModel
		if r.Plan.Config.Versioned {
			m = verModel
		}
		cl := "lin.register"
		if strings.HasPrefix(p, "u:") {
			m, cl = mpuModel, "lin.mpu"
		}
		if strings.HasPrefix(p, "b:") {
			m = bucketVerModel
		}
		if strings.HasPrefix(p, "s:") {
			m = snapModel
		}
		if len(ops) > 90 {
			r.stats.Porcupine["skipped-too-long"]++
			continue
		}
		if h.taint[p] {
			r.stats.Porcupine["skipped-faulted-key"]++
			continue
		}
		res := porcupine.CheckOperationsTimeout(m, ops, timeout)
		switch res {
		case porcupine.Ok:
			r.stats.Porcupine["ok"]++
			r.ok(cl)
		case porcupine.Unknown:
			r.stats.Porcupine["unknown"]++
		case porcupine.Illegal:
			r.stats.Porcupine["illegal"]++
			kinds := map[string]bool{}
			for _, d := range h.desc[p] {
				f := strings.Fields(d)
				if len(f) >= 3 {
					kinds[strings.TrimSuffix(f[2], "-read")] = true
				}
			}
			var ks []string
			for k := range kinds {
				ks = append(ks, k)
			}
			sort.Strings(ks)
			what := "the history of one key is not linearizable"
			if cl == "lin.mpu" {
				what = "the history of one multipart upload is not linearizable"
			}
			if strings.HasPrefix(p, "s:") {
				what, ks = "the history of the run's keys taken together is not linearizable although each key's is: a listing shows keys as they were at different instants", nil
			}
			if strings.HasPrefix(p, "b:") {
				what = "the history of the bucket's versioning state is not linearizable"
			}
			r.fail(cl, fmt.Sprintf("%s (ops: %s) %s", what, strings.Join(ks, ","), r.bctx()), "some sequential order respecting real time explains every result", p+"\n"+strings.Join(h.desc[p], "\n"))
		}
	}
}

func (c Config) linUploads() [][2]string {
	var out [][2]string
	for _, u := range c.LinUploads {
		out = append(out, u)
	}
	return out
}
