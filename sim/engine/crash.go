package engine

import (
	"fmt"
	"os"
	"path/filepath"
	"sort"
	"strconv"
	"strings"
	"verif/sim/simnet"

	"simrt"
	"verif/sim/model"
	"verif/sim/simfs"
)

// inflightOp is a mutating operation between invocation and response.
type inflightOp struct {
	desc string
	pre  *model.Store
	post *model.Store // filled when the op returns
	done bool
}

// crashPoint is the durable state a kill -9 at one I/O boundary leaves.
type crashPoint struct {
	where string
	torn  bool
	fs    *simfs.FS
	bolt  []byte
	op    *inflightOp // nil: between operations
	pre   *model.Store
}

const maxCrashPoints = 160

func (r *Run) mutating(op *Op) bool {
	switch op.K {
	case "put", "del", "delmulti", "copy", "mkbucket", "rmbucket", "badput", "mpu-complete":
		return true
	}
	return false
}

// armCrash is called at the start of a mutating op in crash-enumeration runs.
func (r *Run) armCrash(op *Op) {
	if !r.Plan.Config.CrashAll || !r.mutating(op) || r.curOp < r.Plan.Config.CrashFrom {
		return
	}
	r.me().inflight = &inflightOp{desc: opSummary(op), pre: r.M.Clone()}
}

func (r *Run) disarmCrash() {
	me := r.me()
	if me.inflight != nil {
		me.inflight.post = r.M.Clone()
		me.inflight.done = true
		// the state right after the acknowledgement is a crash point too
		r.addCrashPoint(&crashPoint{where: "after " + me.inflight.desc, op: nil, pre: me.inflight.post})
		me.inflight = nil
	}
}

func (r *Run) addCrashPoint(cp *crashPoint) {
	if len(r.crashes) >= maxCrashPoints {
		r.probe("crash points dropped (cap)")
		return
	}
	switch {
	case r.Env.SimFS != nil:
		if cp.fs == nil {
			cp.fs = r.Env.SimFS.Snapshot()
		}
	case r.Env.BoltDB != nil:
		if cp.bolt == nil {
			b, err := os.ReadFile(filepath.Join(r.Env.Dir, "bolt.db"))
			if err != nil {
				return
			}
			cp.bolt = b
		}
	default:
		return
	}
	r.crashes = append(r.crashes, cp)
	r.stats.CrashPoints++
	if cp.torn {
		r.stats.Faults["crash-torn-write"]++
	} else {
		r.stats.Faults["crash-snapshot"]++
	}
}

func (r *Run) crashPointFS(me *clientState, op, name string) {
	r.addCrashPoint(&crashPoint{where: fmt.Sprintf("before fs.%s(%s) during %s", op, name, me.inflight.desc), op: me.inflight, pre: me.inflight.pre})
	if strings.Contains(name, "metadata") || strings.Contains(name, "/meta") {
		r.probe("crash between object file and metadata file")
	}
}

func (r *Run) crashPointTorn(me *clientState, f *simfs.File, p []byte) {
	for _, j := range []int{1, len(p) / 2, len(p) - 1} {
		if j <= 0 || j >= len(p) {
			continue
		}
		r.addCrashPoint(&crashPoint{where: fmt.Sprintf("torn write %d/%d bytes to %s during %s", j, len(p), f.Path(), me.inflight.desc),
			torn: true, fs: r.Env.SimFS.SnapshotTorn(f, p, j), op: me.inflight, pre: me.inflight.pre})
	}
}

func (r *Run) installBoltHooks() {
	simrt.DiskHook = func(kind string, off int64, data []byte) {
		r.stats.Probes["bolt "+kind+" syscall"]++
		me := r.me()
		if !r.Plan.Config.CrashAll || me.inflight == nil {
			return
		}
		r.addCrashPoint(&crashPoint{where: fmt.Sprintf("before bolt %s@%d during %s", kind, off, me.inflight.desc), op: me.inflight, pre: me.inflight.pre})
		if kind == "write" && len(data) > 1 {
			// torn page write: only the first half reaches the file
			b, err := os.ReadFile(filepath.Join(r.Env.Dir, "bolt.db"))
			if err == nil {
				half := len(data) / 2
				if int(off)+half > len(b) {
					nb := make([]byte, int(off)+half)
					copy(nb, b)
					b = nb
				}
				copy(b[off:], data[:half])
				r.addCrashPoint(&crashPoint{where: fmt.Sprintf("torn bolt page write@%d (%d/%d bytes) during %s", off, half, len(data), me.inflight.desc),
					torn: true, bolt: b, op: me.inflight, pre: me.inflight.pre})
			}
		}
	}
	simrt.TxHook = func(write bool, phase string) {
		if !write || phase != "end" {
			return
		}
		me := r.me()
		if !r.Plan.Config.CrashAll || me.inflight == nil {
			return
		}
		r.addCrashPoint(&crashPoint{where: "after a bolt write transaction during " + me.inflight.desc, op: me.inflight, pre: me.inflight.pre})
		r.probe("crash between bolt transactions of one operation")
	}
}

// entityMatches tells whether an observed key state is wholly the entity
// (nil = absent): body, size, ETag and sent metadata together.
func entityMatches(ks *keySnap, e *model.Entity) bool {
	if e == nil {
		return ks == nil || ks.Status == 404
	}
	if ks == nil || ks.Status != 200 || ks.MD5 != e.MD5 || ks.Size != len(e.Body) {
		return false
	}
	lines := map[string]bool{}
	for _, l := range strings.Split(ks.Headers, "\n") {
		lines[strings.ToLower(l)] = true
	}
	if !lines[strings.ToLower(`Etag: "`+e.MD5+`"`)] {
		return false
	}
	if !lines[fmt.Sprintf("content-length: %d", len(e.Body))] {
		return false
	}
	for k, v := range e.Meta {
		if !lines[strings.ToLower(k+": "+v)] {
			return false
		}
	}
	return true
}

func liveOf(s *model.Store, bucket, key string) *model.Entity {
	if s == nil {
		return nil
	}
	b := s.Buckets[bucket]
	if b == nil {
		return nil
	}
	return b.Keys[key].Live()
}

// examineCrashes opens a new incarnation on every crash snapshot and checks
// crash.opens / crash.acked / crash.atomic.
func (r *Run) examineCrashes() {
	saveEnv, saveM := r.Env, r.M
	defer func() { r.Env, r.M = saveEnv, saveM }()
	var atomicViol *[3]string // the first in-flight write found half there (reported after every kill point has been examined)
	for i, cp := range r.crashes {
		post := cp.pre
		if cp.op != nil && cp.op.post != nil {
			post = cp.op.post
		}
		states := []*model.Store{cp.pre, post}
		var env *Env
		var err error
		clock := NewClock(r.Plan.Config.ClockStepMs)
		clock.Jump(saveEnv.Clock.Elapsed() + 3600e9)
		var dir string
		switch {
		case cp.fs != nil:
			env, err = OpenOnSimFS(r.Plan.Config, r.Plan.Seed, cp.fs.Snapshot(), clock)
		case cp.bolt != nil:
			dir = filepath.Join(r.Dir, fmt.Sprintf("crash%d", i))
			if err = os.MkdirAll(dir, 0700); err == nil {
				if err = os.WriteFile(filepath.Join(dir, "bolt.db"), cp.bolt, 0600); err == nil {
					env, err = OpenOnBoltFile(r.Plan.Config, r.Plan.Seed, dir, clock)
				}
			}
		}
		if err != nil {
			r.fail("crash.opens", "the store does not open after a kill ("+crashClass(cp)+") "+r.bctx(), "opens", cp.where+": "+err.Error())
		}
		r.Env = env
		// union model: every bucket and key either state knows
		u := model.New()
		for _, st := range states {
			for bn, b := range st.Buckets {
				ub := u.Buckets[bn]
				if ub == nil {
					ub = u.CreateBucket(bn)
				}
				for kn := range b.Keys {
					if ub.Keys[kn] == nil {
						ub.Keys[kn] = &model.Key{}
					}
				}
			}
		}
		r.M = u
		names, lresp := r.listBucketNames()
		if lresp.Panic != nil || lresp.Status != 200 {
			r.closeCrashEnv(env, dir)
			r.fail("crash.opens", "ListBuckets fails after a kill ("+crashClass(cp)+") "+r.bctx(), "200", cp.where+": "+lresp.String())
		}
		have := map[string]bool{}
		for _, n := range names {
			have[n] = true
			if u.Buckets[n] == nil {
				r.closeCrashEnv(env, dir)
				r.fail("crash.acked", "a bucket that was never acknowledged appears after a kill ("+crashClass(cp)+") "+r.bctx(), strings.Join(bucketNamesOf(u), ","), cp.where+": "+strconv.Quote(n))
			}
		}
		var bns []string
		for bn := range u.Buckets {
			bns = append(bns, bn)
		}
		sort.Strings(bns)
		for _, bn := range bns {
			inPre, inPost := cp.pre.Buckets[bn] != nil, post.Buckets[bn] != nil
			if inPre && inPost && !have[bn] {
				r.closeCrashEnv(env, dir)
				r.fail("crash.acked", "an acknowledged bucket is missing after a kill ("+crashClass(cp)+") "+r.bctx(), bn, cp.where+": "+strings.Join(names, ","))
			}
			if !have[bn] {
				continue
			}
			st, listing := r.observeListing(bn)
			if st != 200 {
				r.closeCrashEnv(env, dir)
				r.fail("crash.opens", "listing a bucket fails after a kill ("+crashClass(cp)+") "+r.bctx(), "200", fmt.Sprintf("%s: bucket %s status %d", cp.where, bn, st))
			}
			listed := map[string]string{}
			for _, l := range listing {
				p := strings.SplitN(l, "|", 2)
				listed[p[0]] = p[1]
			}
			var kns []string
			for kn := range u.Buckets[bn].Keys {
				kns = append(kns, kn)
			}
			for kn := range listed {
				if u.Buckets[bn].Keys[kn] == nil {
					kns = append(kns, kn)
				}
			}
			sort.Strings(kns)
			for _, kn := range kns {
				ePre, ePost := liveOf(cp.pre, bn, kn), liveOf(post, bn, kn)
				if ePre != nil && ePre.Tag == "bulk" {
					// objects of a bulk fill are judged from the listing alone
					// (size and ETag); anything odd falls through to a full read
					l, isListed := listed[kn]
					line := func(e *model.Entity) string { return fmt.Sprintf("%d|\"%s\"", len(e.Body), e.MD5) }
					okPre := isListed && l == line(ePre)
					okPost := (ePost == nil && !isListed) || (ePost != nil && isListed && l == line(ePost))
					if okPre || (okPost && !(inPre && !inPost)) {
						continue
					}
				}
				ks := r.observeKey(bn, kn)
				// Whatever a kill leaves of a key, the store describes what it
				// serves: the ETag is the MD5 of the bytes of the same answer,
				// and the listing shows that size and ETag.  (Atomicity - which
				// bytes - is judged below; this is "never garbage".)
				if ks.Status == 200 {
					// ... and a conditional read whose condition any object meets
					// (modified since 1970) serves it, whatever the kill has left
					// of the record of when it was stored
					if cg := r.quiet2(&simnet.Request{Method: "GET", Target: target(bn, kn, nil), Headers: [][2]string{{"If-Modified-Since", "Thu, 01 Jan 1970 00:00:01 GMT"}}}); cg.Status != 200 {
						r.closeCrashEnv(env, dir)
						r.fail("crash.coherent", fmt.Sprintf("after a kill a stored object is not served to a conditional read whose condition it meets (in-flight %s) %s", inflightKind(cp), r.bctx()),
							"200", fmt.Sprintf("%s: %s/%q If-Modified-Since 1970 -> %s", cp.where, bn, kn, cg.String()))
					}
					if ks.ETag != ks.MD5 {
						r.closeCrashEnv(env, dir)
						r.fail("crash.coherent", fmt.Sprintf("after a kill an object is served with an ETag that is not the MD5 of the bytes served (in-flight %s) %s", inflightKind(cp), r.bctx()),
							"ETag = MD5 of the body", fmt.Sprintf("%s: %s/%q read %s", cp.where, bn, kn, ks))
					}
					if l, ok := listed[kn]; ok && l != fmt.Sprintf("%d|\"%s\"", ks.Size, ks.MD5) {
						r.closeCrashEnv(env, dir)
						r.fail("crash.coherent", fmt.Sprintf("after a kill the listing shows another size or ETag for an object than a read returns (in-flight %s) %s", inflightKind(cp), r.bctx()),
							fmt.Sprintf("%d|\"%s\"", ks.Size, ks.MD5), fmt.Sprintf("%s: %s/%q listed %q", cp.where, bn, kn, l))
					}
				}
				if k := cp.pre.Buckets[bn]; k != nil && k.Keys[kn] != nil && k.Keys[kn].Indet {
					continue
				}
				if k := post.Buckets[bn]; k != nil && k.Keys[kn] != nil && k.Keys[kn].Indet {
					continue
				}
				okState := entityMatches(ks, ePre) || entityMatches(ks, ePost)
				if inPre && !inPost {
					// the in-flight operation deletes this bucket (a forced
					// deletion takes its objects along): the bucket is still
					// here, so it must be here whole
					okState = entityMatches(ks, ePre)
				}
				// listing must agree with what a read returns
				if ks.Status == 200 {
					want := fmt.Sprintf("%d|\"%s\"", ks.Size, ks.MD5)
					if l, ok := listed[kn]; ok && l != want {
						okState = false
					}
				} else if _, ok := listed[kn]; ok && ePre == nil && ePost == nil {
					okState = false
				}
				if okState {
					continue
				}
				cl, what := "crash.acked", "an acknowledged object is not intact after a kill"
				if ePre != ePost || (inPre && !inPost) {
					cl, what = "crash.atomic", "a write in flight at the kill is neither wholly present nor wholly absent"
				} else if ePre == nil {
					what = "a key that was never acknowledged appears after a kill"
				}
				sig := fmt.Sprintf("%s (%s) %s", what, crashClass(cp), r.bctx())
				exp, obs := fmt.Sprintf("%s/%q = %s or %s", bn, kn, descEnt(ePre), descEnt(ePost)), fmt.Sprintf("%s: read %s, listed %q", cp.where, ks, listed[kn])
				if cl == "crash.atomic" {
					// one finding per backend class and kind of operation, wherever the kill lands
					sig = fmt.Sprintf("%s (in-flight %s) %s", what, inflightKind(cp), r.bctx())
					// The remaining kill points are still examined: a loss of
					// acknowledged data, a store that does not open or an
					// object served with another object's description weighs
					// more than an in-flight write that is half there.
					if atomicViol == nil {
						atomicViol = &[3]string{sig, exp, obs}
					}
					continue
				}
				r.closeCrashEnv(env, dir)
				r.fail(cl, sig, exp, obs)
			}
		}
		r.closeCrashEnv(env, dir)
		r.ok("crash.opens")
		r.ok("crash.acked")
		r.ok("crash.coherent")
		if cp.op != nil && atomicViol == nil {
			r.ok("crash.atomic")
		}
	}
	if atomicViol != nil {
		r.fail("crash.atomic", atomicViol[0], atomicViol[1], atomicViol[2])
	}
}

func bucketNamesOf(s *model.Store) []string {
	var out []string
	for n := range s.Buckets {
		out = append(out, n)
	}
	sort.Strings(out)
	return out
}

func inflightKind(cp *crashPoint) string {
	if cp.op == nil {
		return "none"
	}
	switch strings.Fields(cp.op.desc)[0] {
	case "put", "copy", "badput", "mpu-complete":
		return "upload"
	case "del", "delmulti":
		return "delete"
	}
	return "bucket operation"
}

func descEnt(e *model.Entity) string {
	if e == nil {
		return "<absent>"
	}
	return fmt.Sprintf("{%d bytes md5=%.8s meta=%d}", len(e.Body), e.MD5, len(e.Meta))
}

func (r *Run) closeCrashEnv(env *Env, dir string) {
	if env != nil {
		env.Close()
	}
	if dir != "" {
		os.RemoveAll(dir)
	}
}

func crashClass(cp *crashPoint) string {
	w := cp.where
	switch {
	case cp.torn:
		return "torn in-flight write"
	case strings.HasPrefix(w, "after a bolt write transaction"):
		return "between two transactions of one operation"
	case strings.HasPrefix(w, "after "):
		return "right after the acknowledgement"
	case strings.Contains(w, "bolt"):
		return "inside a bolt commit"
	}
	i := strings.Index(w, "fs.")
	if i >= 0 {
		j := strings.Index(w[i:], "(")
		if j > 0 {
			return "before " + w[i:i+j]
		}
	}
	return "at an I/O boundary"
}
