package engine

import (
	"time"

	"simrt"
)

// Shrink minimises a failing plan structurally while the same clause with the
// same signature keeps firing.  exec must execute a plan from scratch.
func Shrink(p *Plan, sig string, exec func(*Plan) *Result, budget time.Duration) (*Plan, *Result, int) {
	deadline := time.Now().Add(budget)
	tries := 0
	same := func(q *Plan) *Result {
		tries++
		res := exec(q)
		if res.Infra == "" && res.Violation != nil && res.Violation.Signature == sig {
			return res
		}
		return nil
	}
	// 0. switch to replay mode with the recorded schedule
	best := p.Clone()
	bestRes := same(best)
	if bestRes == nil {
		return p, nil, tries
	}
	fix := func(q *Plan, res *Result) {
		q.Schedule = res.Schedule
		q.Replay = true
	}
	{
		q := best.Clone()
		fix(q, bestRes)
		if res := same(q); res != nil {
			best, bestRes = q, res
		}
	}
	try := func(q *Plan) bool {
		if time.Now().After(deadline) {
			return false
		}
		if res := same(q); res != nil {
			if q.Replay {
				q.Schedule = res.Schedule
			}
			best, bestRes = q, res
			return true
		}
		return false
	}
	changed := true
	for round := 0; changed && round < 6 && time.Now().Before(deadline); round++ {
		changed = false
		// 1. cut everything after the violating op of the violating client (sequential runs)
		if v := bestRes.Violation; v != nil && v.Client >= 0 && v.Client < len(best.Clients) && v.OpIndex >= 0 && v.OpIndex+1 < len(best.Clients[v.Client]) {
			q := best.Clone()
			q.Clients[v.Client] = q.Clients[v.Client][:v.OpIndex+1]
			if try(q) {
				changed = true
			}
		}
		// 2. drop whole clients (keep at least one)
		for ci := len(best.Clients) - 1; ci >= 0 && len(best.Clients) > 1; ci-- {
			q := best.Clone()
			q.Clients = append(q.Clients[:ci:ci], q.Clients[ci+1:]...)
			q.Schedule = dropClientSched(q.Schedule, ci)
			if try(q) {
				changed = true
			}
		}
		// 3. drop chunks of ops, then single ops, from the end
		for ci := range best.Clients {
			for chunk := len(best.Clients[ci]) / 2; chunk >= 1; chunk /= 2 {
				for end := len(best.Clients[ci]); end-chunk >= 0 && end <= len(best.Clients[ci]); {
					if time.Now().After(deadline) {
						break
					}
					q := best.Clone()
					start := end - chunk
					q.Clients[ci] = append(q.Clients[ci][:start:start], q.Clients[ci][end:]...)
					q.Schedule = dropOpsSched(q.Schedule, ci, start, chunk)
					if try(q) {
						changed = true
						end = start
					} else {
						end -= chunk
					}
				}
			}
		}
		// 4. drop faults and lies' decorations
		for ci := range best.Clients {
			for oi := range best.Clients[ci] {
				for fi := len(best.Clients[ci][oi].Faults) - 1; fi >= 0; fi-- {
					q := best.Clone()
					f := q.Clients[ci][oi].Faults
					q.Clients[ci][oi].Faults = append(f[:fi:fi], f[fi+1:]...)
					if try(q) {
						changed = true
					}
				}
				if best.Clients[ci][oi].Meta != nil {
					q := best.Clone()
					q.Clients[ci][oi].Meta = nil
					if try(q) {
						changed = true
					}
				}
				if best.Clients[ci][oi].Frag != "" {
					q := best.Clone()
					q.Clients[ci][oi].Frag = ""
					if try(q) {
						changed = true
					}
				}
			}
		}
		// 5. drop schedule deviations: halves, then singly
		if len(best.Schedule) > 0 && best.Replay {
			for chunk := len(best.Schedule); chunk >= 1; chunk /= 2 {
				for start := 0; start < len(best.Schedule); {
					if time.Now().After(deadline) {
						break
					}
					end := start + chunk
					if end > len(best.Schedule) {
						end = len(best.Schedule)
					}
					q := best.Clone()
					q.Schedule = append(append([]simrt.Deviation{}, best.Schedule[:start]...), best.Schedule[end:]...)
					if try(q) {
						changed = true
					} else {
						start = end
					}
				}
				if chunk == 1 {
					break
				}
			}
		}
		// 6. shrink bodies and simplify the configuration
		for ci := range best.Clients {
			for oi := range best.Clients[ci] {
				if b := best.Clients[ci][oi].Body; b != nil && b.Size > 8 {
					for _, s := range []int{5, b.Size / 2} {
						q := best.Clone()
						q.Clients[ci][oi].Body.Size = s
						if try(q) {
							changed = true
							break
						}
					}
				}
			}
		}
		if best.Config.Frag != "" && best.Config.Frag != "whole" {
			q := best.Clone()
			q.Config.Frag = "whole"
			if try(q) {
				changed = true
			}
		}
		if best.Config.ClockStepMs != 7 {
			q := best.Clone()
			q.Config.ClockStepMs = 7
			try(q)
		}
		if best.Config.AutoBucket && len(best.Config.Buckets) > 0 {
			q := best.Clone()
			q.Config.AutoBucket = false
			try(q)
		}
	}
	return best, bestRes, tries
}

func dropClientSched(s []simrt.Deviation, ci int) []simrt.Deviation {
	var out []simrt.Deviation
	for _, d := range s {
		if d.Task == ci || d.To == ci {
			continue
		}
		if d.Task > ci {
			d.Task--
		}
		if d.To > ci {
			d.To--
		}
		out = append(out, d)
	}
	return out
}

func dropOpsSched(s []simrt.Deviation, ci, start, n int) []simrt.Deviation {
	var out []simrt.Deviation
	for _, d := range s {
		if d.Task == ci {
			if d.Op >= start && d.Op < start+n {
				continue
			}
			if d.Op >= start+n {
				d.Op -= n
			}
		}
		out = append(out, d)
	}
	return out
}
