package engine

import (
	"bytes"
	"encoding/xml"
	"fmt"
	"regexp"
	"strings"

	"verif/sim/model"
	"verif/sim/simnet"
)

// statusOwners: error codes that belong to exactly one status, written from
// the S3 error list (not from error.go).
var codeStatus = map[string]int{
	"NoSuchBucket": 404, "NoSuchKey": 404, "NoSuchUpload": 404, "NoSuchVersion": 404,
	"BucketAlreadyExists": 409, "BucketAlreadyOwnedByYou": 409, "BucketNotEmpty": 409,
	"InvalidRange":   416,
	"NotImplemented": 501, "InternalError": 500,
	"MissingContentLength": 411,
	"RequestTimeTooSkewed": 403, "AccessDenied": 403,
	"BadDigest": 400, "InvalidDigest": 400, "IncompleteBody": 400, "InvalidArgument": 400, "InvalidBucketName": 400,
	"InvalidPart": 400, "InvalidPartOrder": 400, "KeyTooLongError": 400, "MalformedXML": 400, "MetadataTooLarge": 400,
	"EntityTooLarge": 400, "InvalidToken": 400, "InvalidURI": 400, "MalformedPOSTRequest": 400,
	"IncorrectNumberOfFilesInPostRequest": 400, "TooManyBuckets": 400, "IllegalVersioningConfigurationException": 400,
}

var statusNeeds = map[int][]string{
	404: {"NoSuchBucket", "NoSuchKey", "NoSuchUpload", "NoSuchVersion"},
	409: {"BucketAlreadyExists", "BucketAlreadyOwnedByYou", "BucketNotEmpty", "OperationAborted", "InvalidBucketState", "RestoreAlreadyInProgress"},
	416: {"InvalidRange"},
	501: {"NotImplemented"},
	500: {"InternalError"},
	411: {"MissingContentLength"},
}

// wellFormed applies the C09 answer checks to one response.
func (r *Run) wellFormed(resp *Resp, method, class string) {
	if resp.ParseErr != nil {
		return // never reached gofakes3
	}
	if resp.Panic != nil {
		r.setViol("no-panic", fmt.Sprintf("%s request panics: %s", class, panicSig(resp)), "a response", fmt.Sprintf("%v\n%s", resp.Panic, trunc(resp.Stack, 3000)))
		panic(stopRun{})
	}
	r.ok("no-panic")
	if resp.Status < 100 || resp.Status > 599 {
		r.fail("wellformed", "an answer carries an impossible status", "100..599", fmt.Sprint(resp.Status))
	}
	if resp.WriteFailed {
		return
	}
	if resp.Status >= 400 && method != "HEAD" && len(resp.Body) > 0 {
		var e xmlError
		if err := xml.Unmarshal(resp.Body, &e); err != nil || e.Code == "" {
			r.fail("wellformed", fmt.Sprintf("an error status carries a body that is not an S3 error document (%s)", class), "<Error><Code>..", fmt.Sprintf("%d %s", resp.Status, trunc(string(resp.Body), 120)))
		}
		if want, ok := codeStatus[e.Code]; ok && want != resp.Status {
			r.fail("wellformed", fmt.Sprintf("error code %s is sent with status %d", e.Code, resp.Status), fmt.Sprint(want), fmt.Sprint(resp.Status))
		}
		if need, ok := statusNeeds[resp.Status]; ok {
			found := resp.Status == 404 && strings.HasPrefix(e.Code, "NoSuch") // every 404 of the S3 error list
			for _, c := range need {
				if c == e.Code {
					found = true
				}
			}
			if !found {
				r.fail("wellformed", fmt.Sprintf("status %d is sent with error code %s", resp.Status, e.Code), strings.Join(need, "|"), e.Code)
			}
		}
	}
	if (resp.Status == 204 || resp.Status == 304) && len(resp.Body) > 0 {
		r.fail("wellformed", "a 204/304 answer has a body", "no body", fmt.Sprint(len(resp.Body)))
	}
	r.ok("wellformed")
}

var placeholderRe = regexp.MustCompile(`\{(ver|up):([^}]*)\}`)

// substitute replaces {ver:bucket/key:i} and {up:i} with ids the server has
// issued so far in this run (or a never-issued id).
func (r *Run) substitute(s string) string {
	return placeholderRe.ReplaceAllStringFunc(s, func(m string) string {
		sub := placeholderRe.FindStringSubmatch(m)
		switch sub[1] {
		case "up":
			n := 0
			fmt.Sscanf(sub[2], "%d", &n)
			if len(r.rawUploads) == 0 {
				return "12345"
			}
			return r.rawUploads[n%len(r.rawUploads)]
		default:
			i := strings.LastIndex(sub[2], ":")
			n := 0
			key := sub[2]
			if i >= 0 {
				fmt.Sscanf(sub[2][i+1:], "%d", &n)
				key = sub[2][:i]
			}
			ids := r.verIDs[key]
			if len(ids) == 0 {
				return "3%2FUNKNOWN"
			}
			return strings.ReplaceAll(strings.ReplaceAll(ids[n%len(ids)], "/", "%2F"), "=", "%3D")
		}
	})
}

var hostSplit = regexp.MustCompile(`^/([a-z0-9][a-z0-9-]*)/?(.*)$`)

var keyFromTarget = regexp.MustCompile(`^/([^/?]+)/([^?]*)`)

func (r *Run) execRaw(ci, oi int, op *Op) {
	if op.K != "raw" || op.Raw == nil {
		panic("raw mode runs raw ops only")
	}
	rq := op.Raw
	body := []byte(r.substitute(rq.Body))
	if rq.BodyGen != nil {
		body = BodyBytes(r.Plan.Seed, rq.BodyGen)
	}
	var hdr [][2]string
	for _, h := range rq.Headers {
		v := h[1]
		if v == "{len}" {
			v = fmt.Sprint(len(body))
		}
		hdr = append(hdr, [2]string{h[0], r.substitute(v)})
	}
	tgt := r.substitute(rq.Target)
	host := rq.Host
	if r.Plan.Config.HostBucket && host == "" {
		// virtual-host style: the first path segment travels in the Host header
		if m := hostSplit.FindStringSubmatch(tgt); m != nil {
			host, tgt = m[1]+".sim", "/"+m[2]
		}
	}
	req := &simnet.Request{Method: rq.Method, Target: tgt, Host: host, Headers: hdr, Body: body, FragSeed: r.Plan.Seed + int64(ci*1000+oi)}
	resp := r.send(req, op.Faults, r.frag(op))
	r.stats.Routes[rq.Class]++
	r.logf("c%d#%d raw %s %s [%s] -> %s", ci, oi, rq.Method, trunc(tgt, 120), rq.Class, resp.String())
	r.wellFormed(resp, rq.Method, rq.Class)
	if resp.OK() && rq.Method != "GET" && rq.Method != "HEAD" {
		r.stats.Mutations++
	}
	// learn ids for later placeholders
	if id := resp.Header.Get("x-amz-version-id"); id != "" && id != "null" {
		if m := keyFromTarget.FindStringSubmatch(rq.Target); m != nil {
			k := m[1] + "/" + m[2]
			r.verIDs[k] = append(r.verIDs[k], id)
		}
	}
	if resp.Status == 200 && bytes.Contains(resp.Body, []byte("<UploadId>")) {
		var x xInitResult
		if xml.Unmarshal(resp.Body, &x) == nil && x.UploadID != "" {
			r.rawUploads = append(r.rawUploads, x.UploadID)
		}
	}
}

// afterRaw is the canary: once every hostile request and every fault is
// over, correct requests on an existing and on a fresh bucket must be served
// correctly.
func (r *Run) afterRaw() {
	cfg := r.Plan.Config
	host := func(req *simnet.Request, bucket string) *simnet.Request {
		if cfg.HostBucket {
			req.Host = bucket + ".sim"
			req.Target = strings.TrimPrefix(req.Target, "/"+bucket)
			if req.Target == "" || req.Target[0] != '/' {
				req.Target = "/" + req.Target
			}
		}
		return req
	}
	do := func(bucket string, req *simnet.Request) *Resp {
		resp := r.send(host(req, bucket), nil, "whole")
		if resp.Panic != nil {
			r.fail("canary", "a correct request after the hostile traffic panics: "+panicSig(resp)+" "+r.bctx(), "served", fmt.Sprintf("%v", resp.Panic))
		}
		return resp
	}
	var buckets []string
	if cfg.Backend != "singlefs" {
		nb := "canary-bucket"
		resp := do(nb, &simnet.Request{Method: "PUT", Target: "/" + nb})
		if !resp.OK() && !(resp.Status == 409) {
			r.fail("canary", "creating a fresh bucket after the hostile traffic fails "+r.bctx(), "2xx", resp.String())
		}
		buckets = append(buckets, nb)
	}
	if len(cfg.Buckets) > 0 {
		b := cfg.Buckets[0]
		if hb := do(b, &simnet.Request{Method: "HEAD", Target: "/" + b}); hb.Status == 200 {
			buckets = append(buckets, b)
		}
	}
	for i, b := range buckets {
		key := fmt.Sprintf("canary/key-%d", i)
		ent := model.NewEntity(BodyBytes(r.Plan.Seed, &BodySpec{Size: 300 + i, Stream: 900000 + i}), nil, "canary")
		put := do(b, &simnet.Request{Method: "PUT", Target: target(b, key, nil), Headers: [][2]string{{"Content-Length", fmt.Sprint(len(ent.Body))}}, Body: ent.Body})
		if !put.OK() {
			r.fail("canary", "a correct PUT after the hostile traffic fails "+r.bctx(), "2xx", put.String()+" "+put.Msg)
		}
		get := do(b, &simnet.Request{Method: "GET", Target: target(b, key, nil)})
		if get.Status != 200 || !bytes.Equal(get.Body, ent.Body) || get.Header.Get("ETag") != etagOf(ent) {
			r.fail("canary", "a correct GET after the hostile traffic does not return the object "+r.bctx(), "200 with the bytes", get.String()+" "+describeBody(get.Body))
		}
		ls := do(b, &simnet.Request{Method: "GET", Target: "/" + b})
		var x xListResult
		if r.refusedByConfig(ls) {
			ls = do(b, &simnet.Request{Method: "GET", Target: "/" + b}) // refused by configuration: not judged
			x.Contents = append(x.Contents, xContent{Key: key, ETag: etagOf(ent)})
		} else if ls.Status != 200 || xml.Unmarshal(ls.Body, &x) != nil {
			r.fail("canary", "a correct ListObjects after the hostile traffic fails "+r.bctx(), "200", ls.String()+" "+ls.Msg)
		}
		found := false
		for _, c := range x.Contents {
			if c.Key == key && c.ETag == etagOf(ent) {
				found = true
			}
		}
		if !found {
			r.fail("canary", "a correct ListObjects after the hostile traffic does not show the canary key "+r.bctx(), key, fmt.Sprint(x.Contents))
		}
		del := do(b, &simnet.Request{Method: "DELETE", Target: target(b, key, nil)})
		if !del.OK() {
			r.fail("canary", "a correct DELETE after the hostile traffic fails "+r.bctx(), "204", del.String())
		}
		if g2 := do(b, &simnet.Request{Method: "GET", Target: target(b, key, nil)}); g2.Status != 404 {
			r.fail("canary", "a deleted canary key is still readable "+r.bctx(), "404", g2.String())
		}
	}
	r.ok("canary")
}
