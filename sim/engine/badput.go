package engine

import (
	"bytes"
	"encoding/xml"
	"fmt"
	"net/url"
	"regexp"
	"sort"
	"strconv"
	"strings"

	"verif/sim/model"
)

// opBadPut sends an object or part upload that carries a lie (digest,
// length, framing, limits) and/or a transport fault, and frames it with
// before/after observations.
//
//	rejected (non-2xx)  => stored object, its metadata, the bucket listing and
//	                       the pending uploads are exactly as before
//	accepted (2xx)      => acceptance was legitimate and the stored bytes are
//	                       exactly the bytes the server received
func (r *Run) opBadPut(op *Op) {
	clR, clA := "reject.unchanged", "accept.iff"
	chunked := len(op.Chunks) > 0 || op.ChLie != ""
	if r.Prop == "C12" && chunked {
		clR, clA = "chunk.reject", "chunk.decode"
	}
	isPart := op.Part != 0
	var u *model.Upload
	bucket, key := op.B, op.Key
	q := url.Values{}
	mismatch := false
	if isPart {
		var id string
		u, bucket, key, id, mismatch = r.uploadAddr(op)
		q = url.Values{"uploadId": {id}, "partNumber": {strconv.Itoa(op.Part)}}
	}
	b := r.M.Buckets[bucket]
	if b == nil {
		return // framing needs an existing bucket; generators only address existing ones
	}
	body := BodyBytes(r.Plan.Seed, op.Body)

	keyBefore := r.observeKey(bucket, key)
	_, listBefore := r.observeListing(bucket)
	groupedBefore := r.observeGrouped(bucket)
	var upsBefore []string
	if b.HadUpload {
		upsBefore = r.observeUploads(bucket)
	}

	req := r.putRequest(op, target(bucket, key, q), body)
	wire := req.Body
	resp := r.send(req, op.Faults, r.frag(op))
	r.noPanic(resp, "upload")
	r.logf("  -> %s %s", resp.String(), trunc(resp.Msg, 80))

	// ---- what can the server legitimately have received?
	abortAt := -1
	for _, f := range op.Faults {
		if f.Kind == "abort" || f.Kind == "aborteof" {
			abortAt = f.At
		}
	}
	avail := len(wire)
	if abortAt >= 0 && abortAt < avail {
		avail = abortAt
		switch {
		case abortAt == 0:
			r.probe("body abort at offset 0")
		case abortAt == len(wire)-1:
			r.probe("body abort at the last byte")
		default:
			r.probe("body abort mid-body")
		}
	}
	mustReject, mustAccept := "", true
	var recv []byte // the bytes of the object if accepted
	switch {
	case op.NoLen || op.TE:
		mustReject = "missing length"
	default:
		declared := len(wire) + op.LenLie
		switch {
		case declared < 0:
			mustReject = "negative length"
		case declared > avail:
			mustReject = "incomplete body"
		default:
			recvWire := wire[:declared]
			if chunked {
				payload, ok, lenient := decodeAwsChunked(recvWire)
				dec := len(body)
				switch op.ChLie {
				case "declen+":
					dec++
				case "declen-":
					dec--
				}
				switch {
				case !ok && len(payload) == dec && dec == len(body) && op.ChLie == "trunc":
					// every payload chunk arrived intact; only the closing
					// zero-length chunk is damaged: like a missing final
					// chunk this is judged leniently
					recv = payload
					mustAccept = false
				case !ok:
					mustReject = "malformed aws-chunked framing"
				case len(payload) != dec:
					mustReject = "decoded length differs from the declared decoded length"
				default:
					recv = payload
					if lenient {
						mustAccept = false
					}
				}
			} else {
				recv = recvWire
			}
		}
	}
	integrity := !r.Plan.Config.NoIntegrity
	if mustReject == "" && integrity {
		switch op.MD5 {
		case "wrong", "wrong-zero", "wrong-ones", "wrong-lastbyte":
			mustReject = "bad digest"
		case "wrong-ofempty":
			if len(recv) > 0 { // (the right digest for a body of which nothing arrived)
				mustReject = "bad digest"
			}
		case "wrong-zero-padbits":
			// a strict decoder calls it malformed, a lenient one a bad digest
			mustReject = "bad digest"
		case "malformed", "shortlen", "empty":
			mustReject = "malformed digest"
		case "ok":
			if !bytes.Equal(recv, body) {
				mustReject = "bad digest"
			}
		}
	}
	if !isPart && len(key) > 1024 && mustReject == "" {
		mustReject = "key too long"
	}
	limit := r.Plan.Config.MetaLimit
	if limit == 0 {
		limit = 2000
	}
	if limit > 0 && !isPart {
		sz := 0
		for k, v := range op.Meta {
			sz += len(k) + len(v)
		}
		switch {
		case sz > limit+64 && mustReject == "":
			mustReject = "metadata too large"
		case sz > limit-160:
			mustAccept = false // near the limit: the exact accounting is the server's
		}
	}
	if isPart {
		if u == nil || u.Gone || mismatch {
			if mustReject == "" {
				mustReject = "no such upload"
			}
		}
		if len(body) == 0 || len(recv) == 0 || op.Part < 1 || op.Part > 10000 {
			mustAccept = false
			if op.Part < 1 || op.Part > 10000 {
				mustReject = "invalid part number"
			}
		}
	}
	if r.Plan.Config.IsFS() && !isPart && (len(key) > 200) {
		mustAccept = false // beyond what a filesystem path component / metadata file name can hold
	}
	if r.me().faulted {
		mustAccept = false
	}

	unchanged := func() {
		after := r.observeKey(bucket, key)
		if *after != *keyBefore {
			kind := snapSig(diffKey(keyBefore, after))
			r.fail(clR, fmt.Sprintf("a rejected upload (%s, answered %d %s) changed the stored object: %s %s", mustRejectOr(mustReject, "server's choice"), resp.Status, resp.Code, kind, r.bctx()),
				keyBefore.String(), after.String())
		}
		_, listAfter := r.observeListing(bucket)
		if strings.Join(listAfter, "\n") != strings.Join(listBefore, "\n") {
			r.fail(clR, fmt.Sprintf("a rejected upload (%s) changed the bucket listing %s", mustRejectOr(mustReject, "server's choice"), r.bctx()), fmt.Sprint(listBefore), fmt.Sprint(listAfter))
		}
		if g := r.observeGrouped(bucket); g != groupedBefore {
			r.fail(clR, fmt.Sprintf("a rejected upload (%s) changed the bucket's delimited listing %s", mustRejectOr(mustReject, "server's choice"), r.bctx()), groupedBefore, g)
		}
		if b.HadUpload {
			if upsAfter := r.observeUploads(bucket); strings.Join(upsAfter, "\n") != strings.Join(upsBefore, "\n") {
				r.fail(clR, fmt.Sprintf("a rejected upload (%s) changed a pending multipart upload", mustRejectOr(mustReject, "server's choice")), fmt.Sprint(upsBefore), fmt.Sprint(upsAfter))
			}
		}
		r.ok(clR)
		r.probe("rejected upload: " + mustRejectOr(mustReject, "server's choice"))
	}

	if !resp.OK() {
		if mustReject == "" && mustAccept {
			r.fail(clA, fmt.Sprintf("a valid upload is refused (%s, md5=%s integrity=%v) %s", uploadKind(op), op.MD5, integrity, r.bctx()), "2xx", resp.String()+" "+resp.Msg)
		}
		if r.me().faulted {
			// injected disk fault: no atomicity promised for this key
			k := b.Keys[key]
			if k == nil {
				k = &model.Key{}
				b.Keys[key] = k
			}
			k.Indet = true
			return
		}
		unchanged()
		return
	}
	// accepted
	if mustReject != "" {
		r.fail(clA, fmt.Sprintf("an upload that must be refused (%s) is accepted %s", mustReject, r.bctx()), "non-2xx", resp.String())
	}
	ent := model.NewEntity(recv, op.Meta, fmt.Sprintf("c%d#%d stream %d (as received)", r.curClient, r.curOp, op.Body.Stream))
	if isPart {
		if et := strings.Trim(resp.Header.Get("ETag"), `"`); et != ent.MD5 {
			r.fail(clA, "an accepted part's ETag is not the MD5 of the bytes received", ent.MD5, et)
		}
		u.Parts[op.Part] = ent
		after := r.observeUploads(bucket)
		found := false
		for _, l := range after {
			if strings.HasPrefix(l, u.Key+"|"+u.ID) && strings.Contains(l, fmt.Sprintf("|%d:%d:\"%s\"", op.Part, len(recv), ent.MD5)) {
				found = true
			}
		}
		if !found {
			r.fail(clA, "an accepted part is not held with exactly the bytes received", fmt.Sprintf("part %d size %d md5 %s", op.Part, len(recv), ent.MD5), fmt.Sprint(after))
		}
		r.ok(clA)
		r.stats.Mutations++
		return
	}
	if et := resp.Header.Get("ETag"); et != etagOf(ent) {
		r.fail(clA, fmt.Sprintf("an accepted upload's ETag is not the MD5 of the bytes received (%s) %s", uploadKind(op), r.bctx()), etagOf(ent), et)
	}
	v := r.M.Put(b, key, ent)
	r.learnVersion(b, key, v, resp, "PUT")
	r.stats.Mutations++
	g := r.quiet("GET", target(bucket, key, nil))
	r.checkEntity(g, ent, false, clA, "(after an accepted upload)")
	if op.LenLie < 0 {
		r.probe("declared length shorter than the bytes sent: prefix stored")
	}
}

func mustRejectOr(s, alt string) string {
	if s == "" {
		return alt
	}
	return s
}

func diffKey(a, b *keySnap) string {
	switch {
	case a.Status == 200 && b.Status != 200:
		return "content became unreadable"
	case a.Status != 200 && b.Status == 200:
		return "content appeared"
	case a.Status != b.Status:
		return "status changed"
	case a.MD5 == b.MD5 && a.Size == b.Size:
		return "metadata changed"
	}
	return "content changed"
}

// decodeAwsChunked is the checker's own decoder of the aws-chunked framing.
// ok=false: malformed.  lenient=true: well-formed except that the final
// zero-length chunk is missing.
func decodeAwsChunked(w []byte) (payload []byte, ok bool, lenient bool) {
	for {
		i := bytes.Index(w, []byte("\r\n"))
		if i < 0 {
			if len(w) == 0 {
				return payload, true, true // ended without the final chunk
			}
			return payload, false, false
		}
		hdr := string(w[:i])
		w = w[i+2:]
		semi := strings.Index(hdr, ";chunk-signature=")
		if semi < 0 {
			return payload, false, false
		}
		if len(hdr)-semi-len(";chunk-signature=") != 64 {
			return payload, false, false
		}
		n, err := strconv.ParseInt(hdr[:semi], 16, 32)
		if err != nil || n < 0 {
			return payload, false, false
		}
		if int(n) > len(w) {
			return nil, false, false // payload bytes are missing
		}
		payload = append(payload, w[:n]...)
		if int(n)+2 > len(w) || string(w[n:n+2]) != "\r\n" {
			return payload, false, false // the chunk's trailing CRLF is damaged
		}
		w = w[n+2:]
		if n == 0 {
			return payload, len(w) == 0, false
		}
	}
}

// ---------------------------------------------------------------- C10

// opHostile performs an operation on one (bucket, key) with a hostile key and
// checks that nothing else in the store changed.
func (r *Run) opHostile(op *Op) {
	addr := [2]string{op.B, op.Key}
	extra := [][2]string{addr}
	before := r.snapshotStore(extra...)
	var treeBefore map[string]string
	if r.Env.SimFS != nil {
		treeBefore = r.Env.SimFS.Dump()
	}
	var resp *Resp
	var body []byte
	switch op.Sub {
	case "put":
		body = BodyBytes(r.Plan.Seed, op.Body)
		resp = r.send(r.putRequest(op, target(op.B, op.Key, nil), body), op.Faults, r.frag(op))
	case "get":
		resp = r.simple("GET", target(op.B, op.Key, nil), op)
	case "head":
		resp = r.simple("HEAD", target(op.B, op.Key, nil), op)
	case "del":
		resp = r.simple("DELETE", target(op.B, op.Key, nil), op)
	case "copy":
		sub := *op
		sub.K = "copy"
		hdr := [][2]string{{"X-Amz-Copy-Source", "/" + op.SrcB + "/" + url.QueryEscape(op.SrcKey)}}
		resp = r.send(&simnetRequest{Method: "PUT", Target: target(op.B, op.Key, nil), Headers: hdr}, op.Faults, r.frag(op))
	case "copyfrom":
		// the hostile key is the source; the addressed key is a plain one
		hdr := [][2]string{{"X-Amz-Copy-Source", "/" + op.SrcB + "/" + url.QueryEscape(op.SrcKey)}}
		resp = r.send(&simnetRequest{Method: "PUT", Target: target(op.B, op.Key, nil), Headers: hdr}, op.Faults, r.frag(op))
		src := liveOf(r.M, op.SrcB, op.SrcKey)
		r.stats.Routes["hostile:copyfrom:"+keyClass(op.SrcKey)]++
		switch {
		case r.M.Buckets[op.B] == nil || r.M.Buckets[op.SrcB] == nil:
			// one of the two buckets has been deleted earlier in the run
		case resp.OK() && src == nil:
			r.fail("frame.others", fmt.Sprintf("a copy whose source is an absent %s key succeeds: it read some other object %s", keyClass(op.SrcKey), r.bctx()), "404", resp.String())
		case resp.OK():
			if g := r.quiet("GET", target(op.B, op.Key, nil)); g.Status != 200 || md5hex(g.Body) != src.MD5 {
				r.fail("frame.others", fmt.Sprintf("a copy whose source is a %s key does not store that object's bytes %s", keyClass(op.SrcKey), r.bctx()), src.MD5, g.String()+" "+md5hex(g.Body))
			}
		case src != nil && !r.me().faulted && (resp.Status == 404 || resp.Status >= 500):
			r.fail("frame.others", fmt.Sprintf("a copy whose source is a stored %s key answers as if it were absent %s", keyClass(op.SrcKey), r.bctx()), "200", resp.String())
		}
	case "delmulti":
		var x bytes.Buffer
		x.WriteString("<Delete><Object><Key>")
		xmlEscape(&x, op.Key)
		x.WriteString("</Key></Object></Delete>")
		resp = r.send(&simnetRequest{Method: "POST", Target: target(op.B, "", url.Values{"delete": {""}}),
			Headers: [][2]string{{"Content-Length", strconv.Itoa(x.Len())}}, Body: x.Bytes()}, op.Faults, r.frag(op))
	case "list":
		resp = r.simple("GET", target(op.B, "", url.Values{"prefix": {op.Key}, "delimiter": {"/"}}), op)
	case "mkbucket":
		resp = r.simple("PUT", target(op.B, "", nil), op)
	case "rmbucket":
		resp = r.simple("DELETE", target(op.B, "", nil), op)
	case "forcerm":
		// Minio-style forced bucket deletion: the bucket goes with all its objects, nothing else does
		resp = r.send(&simnetRequest{Method: "DELETE", Target: target(op.B, "", nil), Headers: [][2]string{{"x-minio-force-delete", "true"}}}, op.Faults, r.frag(op))
	default:
		panic("hostile sub-op " + op.Sub)
	}
	r.noPanic(resp, "request with a hostile key")
	r.logf("  -> %s", resp.String())
	if op.Sub == "list" && resp.Status == 200 {
		// a listing never reads outside the addressed bucket
		var x xListResult
		if xml.Unmarshal(resp.Body, &x) == nil {
			mb := r.M.Buckets[op.B]
			for _, c := range x.Contents {
				if mb == nil || mb.Keys[c.Key].Live() == nil || !strings.HasPrefix(c.Key, op.Key) {
					r.fail("frame.others", fmt.Sprintf("a listing with a %s prefix returns entries that are not keys of the addressed bucket %s", keyClass(op.Key), r.bctx()), "keys of "+op.B+" starting with "+strconv.Quote(op.Key), c.Key)
				}
			}
		}
	}
	r.stats.Routes["hostile:"+op.Sub+":"+keyClass(op.Key)]++

	if isInternalName(r.Plan.Config, op.B) {
		// the addressed "bucket" is the backend's own bookkeeping
		if resp.OK() {
			r.fail("internal.hidden", fmt.Sprintf("a request addressed to the backend's bookkeeping storage as a bucket succeeds (%s) %s", op.Sub, r.bctx()), "refused / NoSuchBucket", resp.String())
		}
		r.ok("internal.hidden")
	}
	names, _ := r.listBucketNames()
	for _, n := range names {
		if isInternalName(r.Plan.Config, n) {
			r.fail("internal.hidden", "ListBuckets shows the backend's bookkeeping storage "+r.bctx(), "hidden", n)
		}
	}

	after := r.snapshotStore(extra...)
	except := [][2]string{addr}
	if op.Sub == "mkbucket" || op.Sub == "rmbucket" || op.Sub == "forcerm" {
		// bucket-level operation: the bucket set may change by exactly this bucket
		before.Names, after.Names = withoutName(before.Names, op.B), withoutName(after.Names, op.B)
		delete(before.Buckets, op.B)
		delete(after.Buckets, op.B)
	} else if r.Plan.Config.AutoBucket {
		// any request may have created the bucket it addresses
		has := func(l []string) bool {
			for _, n := range l {
				if n == op.B {
					return true
				}
			}
			return false
		}
		if has(after.Names) && r.M.Buckets[op.B] == nil {
			r.M.CreateBucket(op.B)
			r.probe("hostile request auto-created its bucket")
		}
		before.Names, after.Names = withoutName(before.Names, op.B), withoutName(after.Names, op.B)
	}
	if d := diffSnap(before, after, except...); d != "" {
		r.fail("frame.others", fmt.Sprintf("%s on a %s key changes something other than the addressed key: %s %s", op.Sub, keyClass(op.Key), snapSig(d), r.bctx()), "only "+op.B+"/"+strconv.Quote(op.Key)+" may change", d)
	}
	if !resp.OK() && (op.Sub == "put" || op.Sub == "copy" || op.Sub == "copyfrom") {
		// a refused upload leaves nothing behind, not even in its own bucket
		if bb, ba := before.Buckets[op.B], after.Buckets[op.B]; bb != nil && ba != nil && bb.Grouped != ba.Grouped && !r.me().faulted {
			r.fail("frame.others", fmt.Sprintf("a refused %s on a %s key changes the bucket's delimited listing %s", op.Sub, keyClass(op.Key), r.bctx()), bb.Grouped, ba.Grouped)
		}
	}
	if !resp.OK() && (op.Sub == "put" || op.Sub == "copy") && r.me().faulted && r.Plan.Config.IsFS() {
		// refused after a (one-shot) disk error: the previous object of the key
		// may be gone with its directories, but no directory is left behind
		// that holds no key
		if ba := after.Buckets[op.B]; ba != nil {
			if ph := phantomPrefixes(ba); len(ph) > 0 {
				r.fail("frame.others", fmt.Sprintf("a %s on a %s key refused after a disk error leaves a directory without keys behind %s", op.Sub, keyClass(op.Key), r.bctx()), "no CommonPrefix without a key below it", fmt.Sprintf("%q in %s", ph, ba.Grouped))
			}
		}
	}
	if treeBefore != nil && r.Plan.Config.Backend == "multifs" && !isInternalName(r.Plan.Config, op.B) {
		treeAfter := r.Env.SimFS.Dump()
		allowed := []string{"/data/buckets/" + op.B + "/", "/data/metadata/" + op.B + "/", "/data/buckets/" + op.B, "/data/metadata/" + op.B}
		for _, p := range changedPaths(treeBefore, treeAfter) {
			okp := false
			for _, a := range allowed {
				if strings.HasPrefix(p, a) {
					okp = true
				}
			}
			if !okp && !strings.Contains(p, ".modtime-resolution") {
				r.fail("frame.others", fmt.Sprintf("%s on a %s key writes outside the addressed bucket's directories on disk %s", op.Sub, keyClass(op.Key), r.bctx()), "changes under "+allowed[0], p)
			}
		}
		r.probe("on-disk tree compared")
	}
	r.ok("frame.others")

	// follow what the store now says about the addressed key (a filesystem
	// backend may have refused or normalised the key)
	b := r.M.Buckets[op.B]
	switch op.Sub {
	case "mkbucket":
		if resp.OK() && b == nil {
			r.M.CreateBucket(op.B)
		}
		return
	case "rmbucket", "forcerm":
		if resp.OK() {
			delete(r.M.Buckets, op.B)
			if r.Plan.Config.AutoBucket {
				return // (with auto-creation the look itself would bring the bucket back)
			}
			if g := r.quiet("HEAD", target(op.B, "", nil)); g.Status != 404 {
				r.fail("frame.others", "a bucket deletion that was acknowledged leaves the bucket in place "+r.bctx(), "404", g.String())
			}
		}
		return
	}
	if b == nil {
		return
	}
	ks := after.Buckets[op.B]
	var now *keySnap
	if ks != nil {
		now = ks.Keys[op.Key]
	}
	if op.Sub == "put" && resp.OK() {
		ent := model.NewEntity(body, nil, "hostile put")
		if !r.Plan.Config.IsFS() {
			// keys are opaque: the accepted upload must be readable under exactly this key
			if now == nil || now.Status != 200 || now.MD5 != ent.MD5 {
				r.fail("frame.others", "an accepted upload under a "+keyClass(op.Key)+" key is not readable under that key "+r.bctx(), ent.MD5, now.String())
			}
		}
		r.stats.Mutations++
	}
	if now != nil && now.Status == 200 {
		g := r.quiet("GET", target(op.B, op.Key, nil))
		r.M.Put(b, op.Key, model.NewEntity(append([]byte(nil), g.Body...), nil, "observed"))
	} else if k := b.Keys[op.Key]; k != nil {
		k.Vers = nil
		delete(b.Keys, op.Key)
	}
}

func withoutName(l []string, n string) []string {
	var out []string
	for _, x := range l {
		if x != n {
			out = append(out, x)
		}
	}
	return out
}

func changedPaths(a, b map[string]string) []string {
	var out []string
	for p, v := range a {
		if w, ok := b[p]; !ok || w != v {
			out = append(out, p)
		}
	}
	for p := range b {
		if _, ok := a[p]; !ok {
			out = append(out, p)
		}
	}
	sort.Strings(out)
	return out
}

func isInternalName(c Config, bucket string) bool {
	switch c.Backend {
	case "bolt":
		return bucket == "_meta"
	}
	return false
}

// keyClass names the hostile feature of a key (coverage and signatures).
func keyClass(k string) string {
	switch {
	case strings.Contains(k, "../") || strings.HasSuffix(k, "/..") || k == "..":
		return "dot-dot-segment"
	case strings.Contains(k, "/./") || strings.HasPrefix(k, "./") || strings.HasSuffix(k, "/.") || k == ".":
		return "dot-segment"
	case strings.Contains(k, "//") || strings.HasPrefix(k, "/"):
		return "empty-segment"
	case strings.Contains(k, "\\"):
		return "backslash"
	case strings.Contains(k, "%"):
		return "percent"
	case strings.ContainsAny(k, "?#&"):
		return "subresource-like"
	case strings.HasPrefix(k, ".") || strings.Contains(k, "/."):
		return "leading-dot"
	case len(k) > 255:
		return "long"
	case strings.Contains(k, "_meta") || strings.Contains(k, "metadata") || strings.Contains(k, "modtime"):
		return "internal-name"
	}
	return "plain-or-prefix"
}

var quotedRe = regexp.MustCompile(`"((?:[^"\\\\]|\\\\.)*)"`)

// phantomPrefixes returns the CommonPrefixes of a bucket's "/"-delimited
// listing under which the undelimited listing shows no key.
func phantomPrefixes(bs *bucketSnap) []string {
	i := strings.Index(bs.Grouped, "| prefixes:")
	if i < 0 {
		return nil
	}
	var out []string
	for _, m := range quotedRe.FindAllString(bs.Grouped[i:], -1) {
		p, err := strconv.Unquote(m)
		if err != nil {
			continue
		}
		found := false
		for _, l := range bs.Listing {
			if strings.HasPrefix(l, p) {
				found = true
				break
			}
		}
		if !found {
			out = append(out, p)
		}
	}
	return out
}
